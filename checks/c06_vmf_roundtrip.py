"""C06 - VMF export -> parse -> export is a fixed point and loses no map content (DESIGN.md section 2, C06)."""
from __future__ import annotations

import glob
import os
import re

from hypothesis import strategies as st

from vlib import vmfgen
from vlib.core import REPO_DIR, Sub
from vlib.vmfgen import GenConfig

PROPERTY = 'C06'
LEVEL = 'exploration'
RULE = (
    'Hypothesis generates JSON map descriptors (vlib/vmfgen.py: worldspawn, entities with keyvalues/outputs/fixups/editor data, '
    'make_prism boxes and arbitrary Sides, displacements power 1-4 incl. multiblend, Strata point_data/viewports, visgroup trees, groups, '
    'cameras, cordons, settings) plus options minimal/disp_multiblend/preserve_ids; the map is built through the public constructors, '
    'exported, parsed, exported again.  Each sub-check restricts the generator to one family of objects (keyvalues, outputs, fixups, '
    'group/visgroup membership, brushes, displacements, meta blocks, whole maps) so that one defect does not hide the others; "samples" '
    'runs every .vmf under tests/ with all option combinations.  Non-trivial = the sub-check\'s own object family is present (whole: '
    '>=1 brush entity or displacement and >=1 output or fixup); distinct = sha1 of the descriptor JSON'
)
ASSUMPTIONS = list(vmfgen.PRECONDITIONS) + [
    'content not carried by the format is excluded from the comparison: worldspawn hidden/groups/visgroups/logicalpos and its '
    '"mapversion" key; group/visgroup ids of solids inside brush entities; triangle tags of the last displacement row/column; '
    'active_cam when there is no camera; cordon_enabled when there is no cordon; blocks documented as skipped by minimal=True; '
    'multiblend fields with disp_multiblend=False',
    'tolerances: 5e-7 (+1 ulp) for 6-decimal fields, 5e-6 relative for %g fields, exact for repr() fields, angles on the circle',
    'pure-Python tokenizer / math only (no Cython build possible in this sandbox)',
]
LEVEL_TEXT = ('Generated-input search: thousands (quick) to tens of thousands (thorough) of random maps per object family are exported, '
              're-parsed and re-exported; the text must be a fixed point (exactly, or up to a consistent renumbering of ids computed on the '
              'parsed Keyvalues) and an independent attribute walker must find the same content within the stated tolerances. '
              'Held-on-everything-explored, not a proof.')
LEVEL_NOTE = ('Trusts Hypothesis generation, the harness builder/walker (vlib/vmfgen.py) and Keyvalues.parse for the renumbering pass; '
              'pure-Python implementation only; preconditions listed in assumptions.')
TECHNIQUE = 'property-based testing (Hypothesis): round-trip fixed point + independent content walker, sample files as fixed inputs'
CAPS = (300, 2400)


def options():
    return st.fixed_dictionaries({
        'minimal': st.sampled_from([False, False, False, True]),
        'disp_multiblend': st.sampled_from([True, True, True, False]),
    })


# 'pre': None, or the case mode (vmfgen.case_variant) of a copy of the map - every string spelt in another letter case - that is
# built, exported and parsed in the same process BEFORE the judged round trip (an earlier, unrelated load of similar content).
PRE = st.sampled_from([None, None, None, 0, 1, 2])


def _case(map_strategy):
    return st.fixed_dictionaries({'map': map_strategy, 'opts': options(), 'pre': PRE})


# ---- per-family generator configurations ---------------------------------------------------------------------------

def cfg_keyvalues(tier):
    return GenConfig(solids=False, displacements=False, meta=False, strata=False, membership=False, max_outputs=0, max_fixups=0,
                     max_ents=4)


def cfg_outputs(tier):
    return GenConfig(solids=False, displacements=False, meta=False, strata=False, membership=False, max_fixups=0, max_keys=2,
                     max_ents=3, nodeid=False)


def cfg_fixups(tier):
    return GenConfig(solids=False, displacements=False, meta=False, strata=False, membership=False, max_outputs=0, max_keys=2,
                     max_ents=3, nodeid=False, fixup_big_ids=True)


def cfg_membership(tier):
    # group / visgroup membership of entities and world brushes, the EntityGroup and VisGroup objects they refer to
    return GenConfig(displacements=False, strata=False, settings=False, max_cameras=0, max_cordons=0, max_world_solids=2,
                     max_ent_solids=1, max_sides=2, max_ents=3, max_keys=1, max_outputs=0, max_fixups=0, nasty=0.1,
                     world_extras=False, nodeid=False)


def cfg_brushes(tier):
    return GenConfig(displacements=False, meta=False, membership=False, max_ents=2, max_keys=2, max_outputs=0, max_fixups=0,
                     nasty=0.2, world_extras=False, nodeid=False)


def cfg_disps(tier):
    return GenConfig(displacements=True, disp_weight=0.8, prism_weight=0.2, max_disp_power=2 if tier == 'quick' else 4, meta=False, membership=False,
                     max_ents=1, max_keys=1, max_outputs=0, max_fixups=0, min_world_solids=1, max_world_solids=2, max_ent_solids=1, max_sides=3,
                     nasty=0.1, world_extras=False, nodeid=False)


def cfg_meta(tier):
    # visgroup tree, cameras, cordons, VMF-level settings, Strata viewports / instance visibility
    return GenConfig(solids=False, displacements=False, membership=False, max_groups=0, max_ents=1, max_keys=1,
                     max_outputs=0, max_fixups=0, world_extras=False, nodeid=False)


def cfg_whole(tier):
    return GenConfig(max_disp_power=2 if tier == 'quick' else 3, disp_weight=0.3)


def _strat(cfg_fn, **kw):
    def strategy(tier):
        return _case(vmfgen.map_descs(cfg_fn(tier), **kw))
    return strategy


# ---- sample files ---------------------------------------------------------------------------------------------------

def sample_cases(tier):
    files = sorted(glob.glob(os.path.join(REPO_DIR, 'tests', '**', '*.vmf'), recursive=True))
    for path in files:
        rel = os.path.relpath(path, REPO_DIR)
        for p in (True, False):
            for minimal, mb in ((False, True), (True, True), (False, False)):
                yield {'file': rel, 'preserve_ids': p, 'opts': {'minimal': minimal, 'disp_multiblend': mb}}


# ---- oracle ---------------------------------------------------------------------------------------------------------

def _short(text: str, lim: int = 3000) -> str:
    return text if len(text) <= lim else text[:lim] + f'... [{len(text)} chars]'


def _first_text_diff(t1: str, t2: str) -> str:
    l1, l2 = t1.split('\n'), t2.split('\n')
    for i, (a, b) in enumerate(zip(l1, l2)):
        if a != b:
            ctx = '\n'.join(l1[max(0, i - 6):i])
            return f'first differing line {i + 1}:\n  export 1: {a!r}\n  export 2: {b!r}\n context before:\n{ctx}'
    return f'line counts differ: {len(l1)} vs {len(l2)}; extra: {(l1[len(l2):] or l2[len(l1):])[:5]!r}'


def _first_tree_diff(a, b, path='') -> str:
    if isinstance(a, list) and isinstance(b, list):
        for i, (x, y) in enumerate(zip(a, b)):
            if x != y:
                if (isinstance(x, list) and isinstance(y, list) and len(x) == 2 and len(y) == 2
                        and x[0] == y[0] and isinstance(x[1], list) and isinstance(y[1], list)):
                    return _first_tree_diff(x[1], y[1], f'{path}/{x[0]}[{i}]')
                return f'at {path}[{i}]: {x!r} != {y!r}'[:1500]
        return f'at {path}: lengths {len(a)} != {len(b)}'
    return f'at {path}: {a!r} != {b!r}'[:1500]


def execute(desc, ctx):
    from srctools.keyvalues import Keyvalues
    from srctools.vmf import VMF
    opts = desc['opts']
    minimal, mb = opts['minimal'], opts['disp_multiblend']
    if 'file' in desc:
        p = desc['preserve_ids']
        with open(os.path.join(REPO_DIR, desc['file']), encoding='utf8', errors='replace') as f:
            src = f.read()
        m = VMF.parse(Keyvalues.parse(src), preserve_ids=p)
        ctx.label('sample')
        ctx.nontrivial(True)
        stats = None
    else:
        build_p = desc['map']['preserve_ids']
        p = desc['map'].get('parse_preserve_ids', build_p)
        stats = vmfgen.desc_stats(desc['map'])
        if desc.get('pre') is not None:
            other = vmfgen.build_vmf(vmfgen.case_transformed(desc['map'], desc['pre']))
            VMF.parse(Keyvalues.parse(other.export(inc_version=False)), preserve_ids=p)
            ctx.label('pre_parse_other_case')
        m = vmfgen.build_vmf(desc['map'])
        for k, n in stats.items():
            if n and k not in ('max_power', 'labels'):
                ctx.label(k)
        ctx.label(*sorted(stats['labels']))
        if stats['max_power']:
            ctx.label(f'disp_power_{stats["max_power"]}')
    want_raw = vmfgen.vmf_content(m)
    if 'file' not in desc:
        id_defs = vmfgen.content_ids(want_raw)
        if build_p and not p and any(len(v) != len(set(v)) for v in id_defs.values()):
            # an id repeated within a kind cannot be re-parsed without preserve_ids "up to a consistent renumbering"
            p = True
            ctx.label('ids:fallback_preserve')
        if build_p:
            ctx.label('ids:built_preserving')
        clash = set(id_defs['group']) & set(id_defs['vis'])
        if not p and clash:
            ctx.label('ids:cross_kind_clash')
            refs = {g for e in want_raw['entities'] for g in e['groups']['v']}
            refs |= {s['group_id']['v'] for s in want_raw['world']['solids'] if s['group_id'] is not None}
            if refs & clash:
                ctx.label('ids:cross_kind_clash_with_members')
    ctx.label('preserve_ids' if p else 'renumber_ids')
    if minimal:
        ctx.label('opt_minimal')
    if not mb:
        ctx.label('opt_no_multiblend')

    t1 = m.export(inc_version=False, minimal=minimal, disp_multiblend=mb)
    kv1 = Keyvalues.parse(t1)
    m2 = VMF.parse(kv1, preserve_ids=p)
    got_raw = vmfgen.vmf_content(m2)
    t2 = m2.export(inc_version=False, minimal=minimal, disp_multiblend=mb)

    # (2) content, by the independent walker
    want = vmfgen.normalise_roundtrip(want_raw, minimal=minimal, disp_multiblend=mb)
    got = vmfgen.normalise_roundtrip(got_raw, minimal=minimal, disp_multiblend=mb)
    diffs = vmfgen.diff_content(want, got, ids='exact' if p else 'renumber')
    if diffs:
        path, a, b = diffs[0]
        lines = '\n'.join(f'  {pth}: want {x!r} got {y!r}'[:600] for pth, x, y in diffs)
        ctx.fail('content', f're-parsed map differs from the original (preserve_ids={p}, minimal={minimal}, disp_multiblend={mb}):\n'
                 f'{lines}\n--- export 1 ---\n{_short(t1)}', path=path, field=_field(path), opts=opts)

    # (1) fixed point
    if p:
        if t1 != t2:
            ctx.fail('fixed_point', f'export(parse(export(m))) != export(m) with preserve_ids=True: {_first_text_diff(t1, t2)}',
                     opts=opts, field='text', negzero_only=_NEGZERO.sub('0', t1) == _NEGZERO.sub('0', t2))
    else:
        r1 = vmfgen.renumber_ids(kv1)
        r2 = vmfgen.renumber_ids(t2)
        if r1 != r2:
            ctx.fail('fixed_point_renumbered', 'exports differ beyond a consistent renumbering of ids (preserve_ids=False): '
                     f'{_first_tree_diff(r1, r2)}\n{_first_text_diff(t1, t2)}', opts=opts, field='text',
                     negzero_only=vmfgen.renumber_ids(_NEGZERO.sub('0', t1)) == vmfgen.renumber_ids(_NEGZERO.sub('0', t2)))
    return stats


# A number token "-0" (what format_float() prints for values in (-5e-7, 0)); re-read it is -0.0 and printed as "0".
_NEGZERO = re.compile(r'(?<![\w.+-])-0(?![\w.])')


def _has_tiny_negative(obj) -> bool:
    if isinstance(obj, float):
        return -5e-7 <= obj < 0
    if isinstance(obj, dict):
        return any(_has_tiny_negative(v) for v in obj.values())
    if isinstance(obj, list):
        return any(_has_tiny_negative(v) for v in obj)
    return False


def match_negzero_text(desc, clause, facts) -> bool:
    """Open finding (root cause owned by C05, pinned by tests/test_vec.py): a generated number in (-5e-7, 0) - or a sample file -
    is exported as "-0", which re-exports as "0"; matches only when that is the *only* difference between the two exports."""
    return (clause in ('fixed_point', 'fixed_point_renumbered') and facts.get('negzero_only') is True
            and ('file' in desc or _has_tiny_negative(desc)))


def _field(path: str) -> str:
    """Last attribute name of a walker path ('entities[0].solids[1].group_id' -> 'group_id')."""
    names = re.findall(r'[A-Za-z_]+', path)
    return names[-1] if names else ''


def _mk(nt_rule):
    def run(desc, ctx):
        stats = execute(desc, ctx)
        if stats is not None:
            ctx.nontrivial(nt_rule(stats))
    return run


exec_keyvalues = _mk(lambda s: s['ents'] >= 1 and (s['nasty_keys'] or s['nasty_values'] or s['comments'] or s['logical_pos']))
exec_outputs = _mk(lambda s: s['outputs'] >= 1)
exec_fixups = _mk(lambda s: s['fixups'] >= 1)
exec_membership = _mk(lambda s: s['ent_groups'] or s['ent_vis'] or s['solid_groups'] or s['groups'])
exec_brushes = _mk(lambda s: s['sides'] >= 1)
exec_disps = _mk(lambda s: s['disps'] >= 1)
exec_meta = _mk(lambda s: s['visgroups'] or s['cameras'] or s['cordons'] or s['viewports'])
exec_whole = _mk(lambda s: (s['brush_ents'] or s['disps']) and (s['outputs'] or s['fixups']))


# ---- second generation: edit a parsed map in place, export/parse it again, and parse the first text once more --------------------

def cfg_second_gen(tier):
    return GenConfig(disp_weight=0.25, max_disp_power=2, meta=False, membership=False, max_ents=2, max_keys=3, max_outputs=1,
                     max_fixups=1, max_world_solids=2, max_ent_solids=1, max_sides=3, nasty=0.1, nodeid=False, strata=False)


_EDIT_KEYS = st.sampled_from(['targetname', 'origin', 'skin', 'Angles', 'spawnflags'])


def edit_strategy():
    ref = st.integers(0, 40)
    num = vmfgen.coords()
    scale = st.sampled_from([0.25, 0.5, 1.0, 2.0, -0.125, 3.0])
    return st.one_of(
        st.tuples(st.sampled_from(['uoffset', 'voffset']), ref, ref, num).map(list),
        st.tuples(st.sampled_from(['uscale', 'vscale']), ref, ref, scale).map(list),
        st.tuples(st.just('translate'), ref, st.lists(st.integers(-512, 512).map(float), min_size=3, max_size=3)).map(list),
        st.tuples(st.just('setkey'), ref, _EDIT_KEYS, vmfgen.any_text()).map(list),
        st.tuples(st.just('delkey'), ref, _EDIT_KEYS).map(list),
        st.tuples(st.just('dispvert'), ref, ref, ref, vmfgen.vec3(), vmfgen.exact_floats()).map(list),
    )


def strat_second_gen(tier):
    return st.fixed_dictionaries({
        'map': vmfgen.map_descs(cfg_second_gen(tier)),
        'opts': st.just({'minimal': False, 'disp_multiblend': True}),
        'edits': st.lists(edit_strategy(), min_size=1, max_size=8),
    })


def apply_edits(vmf, content, edits):
    """Interpret the edit list against the real map (public API) and, independently, against a copy of its walker content
    taken before the edits.  References are indexes modulo the pool sizes.  Returns (expected content, applied counts)."""
    import copy
    from srctools.math import Vec
    exp = copy.deepcopy(content)
    solids = list(vmf.brushes) + [s for e in vmf.entities for s in e.solids]
    xsolids = list(exp['world']['solids']) + [s for e in exp['entities'] for s in e['solids']]
    applied = {'uv': 0, 'translate': 0, 'key': 0, 'dispvert': 0}
    for ed in edits:
        kind = ed[0]
        if kind in ('uoffset', 'voffset', 'uscale', 'vscale', 'dispvert', 'translate'):
            if not solids:
                continue
            si = ed[1] % len(solids)
            solid, xsolid = solids[si], xsolids[si]
        if kind in ('uoffset', 'voffset', 'uscale', 'vscale'):
            fi = ed[2] % len(solid.sides)
            axis = solid.sides[fi].uaxis if kind[0] == 'u' else solid.sides[fi].vaxis
            xaxis = xsolid['sides'][fi]['uaxis' if kind[0] == 'u' else 'vaxis']
            if kind.endswith('offset'):
                axis.offset = ed[3]
                xaxis[3] = vmfgen.C(ed[3])
            else:
                axis.scale = ed[3]
                xaxis[4] = vmfgen.C(ed[3])
            applied['uv'] += 1
        elif kind == 'translate':
            # Side.translate() divides by the axis scales: only defined for non-zero scales
            if any(abs(sd['uaxis'][4]['v']) < 1e-3 or abs(sd['vaxis'][4]['v']) < 1e-3 for sd in xsolid['sides']):
                continue
            solid.translate(Vec(*ed[2]))
            for sd in xsolid['sides']:
                sd['planes'] = [[vmfgen.C(c['v'] + d) for c, d in zip(pl, ed[2])] for pl in sd['planes']]
                sd['uaxis'][3] = sd['vaxis'][3] = vmfgen.ANY      # texture offsets follow the move; their value is not judged here
            applied['translate'] += 1
        elif kind == 'dispvert':
            fi = ed[2] % len(solid.sides)
            side, xside = solid.sides[fi], xsolid['sides'][fi]
            if xside['disp'] is None:
                continue
            size = side.disp_size
            vi = ed[3] % (size * size)
            vert = side[vi % size, vi // size]
            vert.offset = Vec(*ed[4])
            vert.distance = ed[5]
            xside['disp']['verts'][vi]['o'] = [vmfgen.C(c) for c in ed[4]]
            xside['disp']['verts'][vi]['d'] = vmfgen.X(ed[5])
            applied['dispvert'] += 1
        elif kind in ('setkey', 'delkey'):
            if not vmf.entities:
                continue
            ei = ed[1] % len(vmf.entities)
            ent, xent = vmf.entities[ei], exp['entities'][ei]
            fold = ed[2].casefold()
            if kind == 'setkey':
                ent[ed[2]] = ed[3]
                for pair in xent['keys']:
                    if pair[0].casefold() == fold:
                        pair[1] = ed[3]
                        break
                else:
                    xent['keys'].append([ed[2], ed[3]])
                    xent['keys'].sort(key=lambda pr: pr[0])
            else:
                del ent[ed[2]]
                xent['keys'] = [pr for pr in xent['keys'] if pr[0].casefold() != fold]
            applied['key'] += 1
    return exp, applied


def exec_second_gen(desc, ctx):
    from srctools.keyvalues import Keyvalues
    from srctools.vmf import VMF
    mdesc = desc['map']
    build_p = mdesc['preserve_ids']
    p = mdesc.get('parse_preserve_ids', build_p)
    m = vmfgen.build_vmf(mdesc)
    ids0 = vmfgen.content_ids(vmfgen.vmf_content(m))
    if build_p and not p and any(len(v) != len(set(v)) for v in ids0.values()):
        p = True
    t1 = m.export(inc_version=False)
    m2 = VMF.parse(Keyvalues.parse(t1), preserve_ids=p)
    snap2 = vmfgen.vmf_content(m2)                     # first parse, before any edit

    expected, applied = apply_edits(m2, snap2, desc['edits'])
    for k, n in applied.items():
        if n:
            ctx.label('edit:' + k)
    edited = vmfgen.vmf_content(m2)
    diffs = vmfgen.diff_content(expected, edited, ids='exact')
    if diffs:
        lines = '\n'.join(f'  {pth}: want {x!r} got {y!r}'[:400] for pth, x, y in diffs)
        ctx.fail('edit_isolation', 'editing a parsed map in place changed something other than the edited objects (or not the edited '
                 f'ones); edits={desc["edits"]!r}\n{lines}', field=_field(diffs[0][0]))

    # third generation: the edited map round-trips like any other
    t3 = m2.export(inc_version=False)
    m3 = VMF.parse(Keyvalues.parse(t3), preserve_ids=p)
    want = vmfgen.normalise_roundtrip(edited)
    got = vmfgen.normalise_roundtrip(vmfgen.vmf_content(m3))
    diffs = vmfgen.diff_content(want, got, ids='exact' if p else 'renumber')
    if diffs:
        lines = '\n'.join(f'  {pth}: want {x!r} got {y!r}'[:400] for pth, x, y in diffs)
        ctx.fail('content_gen2', f'edited map differs after export -> parse (preserve_ids={p}); edits={desc["edits"]!r}\n{lines}',
                 field=_field(diffs[0][0]))

    # parsing the ORIGINAL text again must give what the first parse gave: no state may leak between parses / from the edits
    m1b = VMF.parse(Keyvalues.parse(t1), preserve_ids=p)
    again = vmfgen.vmf_content(m1b)
    diffs = vmfgen.diff_content(snap2, again, ids='exact')
    if diffs:
        lines = '\n'.join(f'  {pth}: first parse {x!r} second parse {y!r}'[:400] for pth, x, y in diffs)
        ctx.fail('reparse_state_leak', 'parsing the same text a second time (after the first result was edited in place) gives a '
                 f'different map; edits={desc["edits"]!r}\n{lines}', field=_field(diffs[0][0]))
    if applied['uv'] or applied['translate']:
        ctx.label('second_gen:edited_then_reparsed')
    ctx.nontrivial(sum(applied.values()) > 0)


SUBCHECKS = [
    Sub('keyvalues', exec_keyvalues, strategy=_strat(cfg_keyvalues, min_ents=1), quick=800, thorough=20000, floor=300,
        must_hit=('hidden_ents', 'comments', 'logical_pos', 'nasty_keys', 'nasty_values', 'nodeid', 'preserve_ids', 'renumber_ids',
                  'case_variant:key', 'case_variant:val', 'pre_parse_other_case')),
    Sub('outputs', exec_outputs, strategy=_strat(cfg_outputs, min_ents=1), quick=800, thorough=20000, floor=300,
        must_hit=('outputs', 'out_comma', 'out_esc_sep', 'inst_out', 'inst_in', 'case_variant:io', 'case_variant:val')),
    Sub('fixups', exec_fixups, strategy=_strat(cfg_fixups, min_ents=1), quick=600, thorough=14000, floor=200,
        must_hit=('fixups', 'nasty_fixup_vars', 'case_variant:fixvar')),
    Sub('membership', exec_membership, strategy=_strat(cfg_membership), quick=600, thorough=10000, floor=200,
        must_hit=('ent_groups', 'ent_vis', 'solid_groups', 'groups', 'visgroups', 'hidden_ents', 'hidden_solids', 'opt_minimal',
                  'ids:cross_kind_clash', 'ids:cross_kind_clash_with_members', 'ids:built_preserving')),
    Sub('brushes', exec_brushes, strategy=_strat(cfg_brushes), quick=500, thorough=10000, floor=150,
        must_hit=('prisms', 'raw_solids', 'hidden_solids', 'world_brushes', 'brush_ents', 'strata_points', 'nasty_mats',
                  'case_variant:mat', 'pre_parse_other_case')),
    Sub('displacements', exec_disps, strategy=_strat(cfg_disps), quick=400, thorough=4000, floor=80,
        must_hit=('disps', 'multiblend_disps', 'disp_power_1', 'disp_power_2', 'opt_no_multiblend',
                  'mb:only_w', 'mb:only_x', 'mb:one_vertex', 'mb:all_equal', 'mb:dense', 'ma:only_w')),
    Sub('meta', exec_meta, strategy=_strat(cfg_meta), quick=600, thorough=10000, floor=250,
        must_hit=('visgroups', 'nested_visgroups', 'cameras', 'cordons', 'viewports', 'inst_vis', 'opt_minimal', 'case_variant:name')),
    Sub('whole', exec_whole, strategy=_strat(cfg_whole), quick=300, thorough=5000, floor=60,
        must_hit=('brush_ents', 'disps', 'outputs', 'fixups', 'visgroups', 'groups', 'opt_minimal', 'opt_no_multiblend',
                  'ids:cross_kind_clash')),
    Sub('second_generation', exec_second_gen, strategy=strat_second_gen, quick=300, thorough=5000, floor=60,
        must_hit=('second_gen:edited_then_reparsed', 'edit:uv', 'edit:translate', 'edit:key', 'edit:dispvert')),
    Sub('samples', _mk(lambda s: True), fixed=sample_cases, floor=1, must_hit=('sample',), quick_shards=1, thorough_shards=1),
]

MATCHERS = {'negzero_text': match_negzero_text}
