"""C09 - copies of map objects are complete and independent of their source (DESIGN.md section 2, C09)."""
from __future__ import annotations

import io
import warnings
from array import array

from hypothesis import strategies as st

from vlib.core import Sub
from vlib import gens, vmfgen
from checks import c01_kv_roundtrip as c01

PROPERTY = 'C09'
LEVEL = 'exploration'
RULE = (
    'Hypothesis generates map objects (entity with solids/outputs/fixups, solid, side incl. displacement + multiblend + '
    'allowed verts + point data, output, visgroup tree - from vlib/vmfgen.py - and Keyvalues trees), a copy target (same '
    'map / other map) and a list of in-place mutations (translate, localise, key/fixup/output edits, vertex edits, '
    'arithmetic on the n-th reachable Vec) applied to one side; non-trivial = an optional block (displacement / fixups / '
    'point data / empty KV block) is populated and a mutation touches nested state; distinct = sha1 of the descriptor'
)
ASSUMPTIONS = [
    'texture axes have |scale| >= 1e-3 (translate()/localise() divide by the scale)',
    'objects are built through the public constructors (vlib/vmfgen.py); only public API is used to mutate',
    'ids of the copied object and its children are compared up to renumbering, references to groups/visgroups exactly',
    'the shared `map` back-reference of objects in the same VMF is not aliasing',
]
LEVEL_TEXT = ('Generated-input search: every copy is compared with its source by an independent content walker and by export text '
              '(ids renumbered), an object-graph walker asserts that no mutable object is reachable from both, and generated '
              'mutation sequences on either side must leave the other side\'s content bit-identical; operator operands are '
              'snapshotted before and after. Held-on-everything-explored, not a proof.')
LEVEL_NOTE = 'Trusts Hypothesis, the vmfgen content walker and the harness graph walker; pure-Python implementations only.'
TECHNIQUE = 'property-based testing (Hypothesis): copy completeness (walker + export differential) and mutation-independence / aliasing oracles'

CFG = vmfgen.GenConfig(max_keys=4, max_outputs=3, max_fixups=3, max_ent_solids=2, max_sides=3, max_disp_power=2,
                       disp_weight=0.5, nasty=0.1, tiny_negative=False, dup_ids=False, nodeid=False)


# ----------------------------------------------------------------------------------------------- helpers

def strip_own_ids(c):
    """Walker structure -> plain comparable structure: own ids (ent/solid/side/vis) blanked, numbers exact."""
    if isinstance(c, dict):
        if '~' in c:
            if c['~'] == 'id':
                return '#' + c['k'] if c['k'] in ('ent', 'solid', 'side', 'vis') else ('id', c['k'], c['v'])
            if c['~'] == 'ids':
                return ('ids', c['k'], tuple(c['v']))
            return ('num', repr(c['v']))
        return {k: strip_own_ids(v) for k, v in c.items()}
    if isinstance(c, list):
        return [strip_own_ids(v) for v in c]
    return c


def first_diff(a, b, path=''):
    if type(a) is not type(b):
        return f'{path}: {a!r} != {b!r}'
    if isinstance(a, dict):
        if sorted(a) != sorted(b):
            return f'{path}: keys {sorted(a)} != {sorted(b)}'
        for k in a:
            d = first_diff(a[k], b[k], f'{path}.{k}')
            if d:
                return d
        return None
    if isinstance(a, list):
        if len(a) != len(b):
            return f'{path}: length {len(a)} != {len(b)}'
        for i, (x, y) in enumerate(zip(a, b)):
            d = first_diff(x, y, f'{path}[{i}]')
            if d:
                return d
        return None
    return None if a == b else f'{path}: {a!r} != {b!r}'


def content_of(kind, obj):
    if kind == 'entity':
        return vmfgen.entity_content(obj)
    if kind == 'solid':
        return vmfgen.solid_content(obj)
    if kind == 'side':
        return vmfgen.side_content(obj)
    if kind == 'output':
        return vmfgen.output_content(obj)
    if kind == 'visgroup':
        return vmfgen.visgroup_content(obj)
    raise AssertionError(kind)


def export_of(kind, obj) -> str:
    buf = io.StringIO()
    if kind == 'output':
        obj.export(buf, '')
    elif kind in ('entity', 'solid', 'side', 'visgroup'):
        obj.export(buf, '')
    return buf.getvalue()


def renumbered(text: str):
    """Export text with the own ids (``"id" "N"`` lines of entity/solid/side, ``"visgroupid"`` of a visgroup block) replaced
    by their order of first occurrence.  Line based, so it does not depend on the text parsing back (C06 judges that)."""
    import re
    maps: dict = {}
    out = []
    stack = []
    prev = ''
    for line in text.split('\n'):
        st_ = line.strip()
        if st_ == '{':
            stack.append(prev.strip('"'))
        elif st_ == '}':
            if stack:
                stack.pop()
        else:
            m = re.fullmatch(r'(\s*)"(id|visgroupid)" "(-?\d+)"', line)
            block = stack[-1] if stack else ''
            if m and ((m.group(2) == 'id' and block in ('entity', 'world', 'solid', 'side'))
                      or (m.group(2) == 'visgroupid' and block == 'visgroup')):
                mp = maps.setdefault(block, {})
                line = f'{m.group(1)}"{m.group(2)}" "#{mp.setdefault(m.group(3), len(mp))}"'
        out.append(line)
        prev = st_
    return out


MUTABLE_LEAVES = ()


def reachable_mutables(root, skip_names=('map', 'vmf', '_vmf')):
    """id -> (path, obj) of every mutable object reachable from ``root`` (not following map back-references)."""
    from srctools.math import Vec, Angle, Matrix
    from srctools import vmf as vmfmod
    seen: dict = {}
    stack = [('', root)]
    atom = (str, bytes, int, float, bool, type(None))
    while stack:
        path, obj = stack.pop()
        if isinstance(obj, atom) or isinstance(obj, (vmfmod.VMF,)):
            continue
        import enum
        if isinstance(obj, (enum.Enum, type)):
            continue
        oid = id(obj)
        if oid in seen:
            continue
        name = type(obj).__name__
        if name.startswith('Frozen') or isinstance(obj, (frozenset,)):
            continue
        if getattr(type(obj).__setattr__, '__name__', '') == '_frozen_setattrs':
            continue      # attrs frozen value classes (e.g. Vec4) are immutable
        if isinstance(obj, tuple):
            for i, v in enumerate(obj):
                stack.append((f'{path}[{i}]', v))
            continue
        seen[oid] = (path, obj)
        if isinstance(obj, (Vec, Angle, Matrix, array)):
            continue
        if isinstance(obj, dict):
            for k, v in obj.items():
                stack.append((f'{path}[{k!r}]', v))
            continue
        if isinstance(obj, (list, set)):
            for i, v in enumerate(obj if isinstance(obj, list) else sorted(obj, key=repr)):
                stack.append((f'{path}[{i}]', v))
            continue
        names = []
        for klass in type(obj).__mro__:
            sl = klass.__dict__.get('__slots__', ())
            names.extend([sl] if isinstance(sl, str) else sl)
        if hasattr(obj, '__dict__'):
            names.extend(vars(obj))
        for n in names:
            if n in skip_names or n == '__weakref__':
                continue
            try:
                v = getattr(obj, n)
            except AttributeError:
                continue
            stack.append((f'{path}.{n}', v))
    return seen


def reachable_vecs(root):
    from srctools.math import Vec
    items = [(p, o) for p, o in reachable_mutables(root).values() if isinstance(o, Vec)]
    items.sort(key=lambda t: t[0])
    return items


# ----------------------------------------------------------------------------------------------- vmf objects

def mutation_strategy():
    num = st.sampled_from([1.0, -3.5, 128.0, 0.25])
    v3 = st.tuples(num, num, num).map(list)
    return st.one_of(
        st.tuples(st.just('vec_iadd'), st.integers(0, 400), v3).map(list),
        st.tuples(st.just('vec_setx'), st.integers(0, 400), num).map(list),
        st.tuples(st.just('translate'), v3).map(list),
        st.tuples(st.just('localise'), v3, st.sampled_from([[0, 90, 0], [30, 40, 50], [0, 0, 0]])).map(list),
        st.tuples(st.just('setkey'), st.sampled_from(['targetname', 'origin', 'newkey', 'classname']), st.sampled_from(['zz', '1 2 3'])).map(list),
        st.tuples(st.just('delkey'), st.integers(0, 8)).map(list),
        st.tuples(st.just('fixup_set'), st.integers(0, 5), st.sampled_from(['changed', ''])).map(list),
        st.tuples(st.just('fixup_new'), st.sampled_from(['brandnew', 'x2'])).map(list),
        st.tuples(st.just('out_edit'), st.integers(0, 5), st.sampled_from(['target', 'input', 'params', 'delay', 'times', 'output'])).map(list),
        st.tuples(st.just('out_add'),).map(list),
        st.tuples(st.just('out_del'), st.integers(0, 5)).map(list),
        st.tuples(st.just('side_attr'), st.integers(0, 12), st.sampled_from(['mat', 'lightmap', 'smooth', 'ham_rot', 'uoff', 'vscale'])).map(list),
        st.tuples(st.just('vert_edit'), st.integers(0, 12), st.integers(0, 30), st.sampled_from(['alpha', 'distance', 'tri', 'mblend', 'mcolor'])).map(list),
        st.tuples(st.just('allowed'), st.integers(0, 12), st.integers(0, 9)).map(list),
        st.tuples(st.just('points'), st.integers(0, 12)).map(list),
        st.tuples(st.just('membership'), st.sampled_from(['vis', 'group', 'hidden'])).map(list),
        st.tuples(st.just('vis_edit'), st.sampled_from(['name', 'child_add', 'child_del', 'color'])).map(list),
    )


def _sane_sides(pair):
    """A texture axis with scale 0 cannot be translated (division by the scale): keep |scale| >= 1e-3 (precondition)."""
    kind, d = pair
    for side in _side_descs(kind, d):
        for ax in ('uaxis', 'vaxis'):
            if side.get(ax) and abs(side[ax][4]) < 1e-3:
                side[ax] = side[ax][:4] + [0.25]
    return [kind, d]


def obj_strategy(tier: str):
    ent = vmfgen.entity_descs(CFG)
    solid = vmfgen.solid_descs(CFG)
    side_disp = vmfgen.side_descs(CFG, True)
    output = vmfgen.output_descs(CFG)
    vis = vmfgen.visgroup_descs(CFG)
    kind_desc = st.one_of(
        st.tuples(st.just('entity'), ent), st.tuples(st.just('entity'), vmfgen.entity_descs(CFG, brush=True)),
        st.tuples(st.just('solid'), solid), st.tuples(st.just('side'), side_disp),
        st.tuples(st.just('output'), output), st.tuples(st.just('visgroup'), vis),
    )
    return st.fixed_dictionaries({
        'obj': kind_desc.map(_sane_sides),
        'cross_map': st.booleans(),
        'mutate': st.sampled_from(['copy', 'orig']),
        'muts': st.lists(mutation_strategy(), min_size=1, max_size=8),
        # outputs carry their own pickle state, so the copy module and pickle are further ways of copying one
        'how': st.sampled_from(['method', 'method', 'copy.copy', 'copy.deepcopy', 'pickle']),
        # the optional id-mapping dict of copy() (side_mapping / group_mapping): None = not passed, 0 = a fresh dict,
        # n > 0 = a dict that n earlier copies of the same object have already filled
        'mapping': st.sampled_from([None, None, 0, 1, 2]),
    })


def all_sides(kind, obj):
    if kind == 'side':
        return [obj]
    if kind == 'solid':
        return list(obj.sides)
    if kind == 'entity':
        return [s for sol in obj.solids for s in sol.sides]
    return []


def apply_mutation(kind, obj, mut, ctx) -> bool:
    """Apply one in-place mutation through public API.  Returns True when it touched nested state."""
    from srctools.math import Vec
    from srctools import vmf as V
    op = mut[0]
    if op in ('vec_iadd', 'vec_setx'):
        vecs = reachable_vecs(obj)
        if not vecs:
            return False
        path, vec = vecs[mut[1] % len(vecs)]
        if op == 'vec_iadd':
            vec += Vec(*mut[2])
        else:
            vec.x = mut[2]
        ctx.label('mut:vec')
        return '.' in path.strip('.')
    if op == 'translate' and kind in ('solid', 'side'):
        obj.translate(Vec(*mut[1]))
        return True
    if op == 'localise' and kind in ('solid', 'side'):
        from srctools.math import Angle
        obj.localise(Vec(*mut[1]), Angle(*mut[2]))
        return True
    if op in ('translate', 'localise') and kind == 'entity':
        from srctools.math import Angle
        for sol in obj.solids:
            if op == 'translate':
                sol.translate(Vec(*mut[1]))
            else:
                sol.localise(Vec(*mut[1]), Angle(*mut[2]))
        return bool(obj.solids)
    if kind == 'entity':
        if op == 'setkey':
            obj[mut[1]] = mut[2]
            return False
        if op == 'delkey':
            keys = sorted(obj.keys())
            keys = [k for k in keys if k.casefold() != 'classname']
            if keys:
                del obj[keys[mut[1] % len(keys)]]
            return False
        if op == 'fixup_set':
            names = sorted(obj.fixup)
            if names:
                obj.fixup[names[mut[1] % len(names)]] = mut[2]
                ctx.label('mut:fixup')
                return True
            return False
        if op == 'fixup_new':
            obj.fixup[mut[1]] = 'v'
            return True
        if op == 'out_edit' and obj.outputs:
            out = obj.outputs[mut[1] % len(obj.outputs)]
            _edit_output(out, mut[2])
            ctx.label('mut:output')
            return True
        if op == 'out_add':
            obj.add_out(V.Output('OnAdded', 'tgt', 'Fire'))
            return True
        if op == 'out_del' and obj.outputs:
            del obj.outputs[mut[1] % len(obj.outputs)]
            return True
    if kind == 'output' and op == 'out_edit':
        _edit_output(obj, mut[2])
        return False
    sides = all_sides(kind, obj)
    if op == 'side_attr' and sides:
        side = sides[mut[1] % len(sides)]
        what = mut[2]
        if what == 'mat':
            side.mat = 'changed/mat'
        elif what == 'lightmap':
            side.lightmap += 3
        elif what == 'smooth':
            side.smooth ^= 5
        elif what == 'ham_rot':
            side.ham_rot += 11.5
        elif what == 'uoff':
            side.uaxis.offset += 2.5
        elif what == 'vscale':
            side.vaxis.scale = side.vaxis.scale * 2 + 1
        return what in ('uoff', 'vscale')
    if op == 'vert_edit' and sides:
        side = sides[mut[1] % len(sides)]
        if not side.is_disp:
            return False
        size = side.disp_size
        n = mut[2] % (size * size)
        vert = side[n % size, n // size]
        what = mut[3]
        if what == 'alpha':
            vert.alpha += 7
        elif what == 'distance':
            vert.distance += 1.5
        elif what == 'tri':
            vert.triangle_a = V.TriangleTag(vert.triangle_a.value ^ 1)
        elif what == 'mblend':
            vert.multi_blend = V.Vec4(0.5, 0.25, 1.0, 0.0)
        elif what == 'mcolor':
            if vert.multi_colors is not None and vert.multi_colors:
                vert.multi_colors[0].x += 0.5
            else:
                vert.multi_colors = [Vec(1, 0, 0), Vec(0, 1, 0), Vec(0, 0, 1), Vec(1, 1, 1)]
        ctx.label('mut:disp_vertex')
        return True
    if op == 'allowed' and sides:
        side = sides[mut[1] % len(sides)]
        if side.is_disp:
            side.disp_allowed_vert[mut[2] % 10] ^= 0x55
            ctx.label('mut:allowed_vert')
            return True
        return False
    if op == 'points' and sides:
        side = sides[mut[1] % len(sides)]
        if side.strata_points:
            side.strata_points[0].z += 4
            return True
        if side.strata_points is not None:
            side.strata_points.append(Vec(1, 2, 3))
            return True
        return False
    if op == 'membership' and kind in ('entity', 'solid'):
        if mut[1] == 'vis':
            obj.visgroup_ids.add(777)
        elif mut[1] == 'group' and kind == 'entity':
            obj.groups.add(888)
        elif mut[1] == 'hidden':
            obj.hidden = not obj.hidden
        return True
    if kind == 'visgroup' and op == 'vis_edit':
        what = mut[1]
        if what == 'name':
            obj.name += '_x'
        elif what == 'child_add':
            obj.child_groups.append(V.VisGroup(obj.vmf, 'extra'))
        elif what == 'child_del' and obj.child_groups:
            del obj.child_groups[0]
        elif what == 'color':
            obj.color.y += 1
        elif obj.child_groups:
            obj.child_groups[0].name += '_y'
        return True
    return False


def _edit_output(out, what):
    if what == 'delay':
        out.delay += 1.25
    elif what == 'times':
        out.times = 7
    else:
        setattr(out, what, getattr(out, what) + 'X')


def build_obj(kind, desc, vmf):
    if kind == 'entity':
        return vmfgen.build_entity(vmf, desc, add=True)
    if kind == 'solid':
        sol = vmfgen.build_solid(vmf, desc)
        vmf.add_brush(sol)
        return sol
    if kind == 'side':
        return vmfgen.build_side(vmf, desc)
    if kind == 'output':
        return vmfgen.build_output(desc)
    if kind == 'visgroup':
        vis = vmfgen.build_visgroup(vmf, desc)
        vmf.vis_tree.append(vis)
        return vis
    raise AssertionError(kind)


def copy_via(obj, how):
    import copy
    import pickle
    if how == 'copy.copy':
        return copy.copy(obj)
    if how == 'copy.deepcopy':
        return copy.deepcopy(obj)
    if how.startswith('pickle'):
        return pickle.loads(pickle.dumps(obj, protocol=int(how[6:] or pickle.HIGHEST_PROTOCOL)))
    raise AssertionError(how)


def collapse_copy(vis, as_param: bool):
    """The other place visgroups get copied: collapsing the map that owns them as an instance with visgroups kept."""
    import logging
    logging.getLogger('srctools').setLevel(logging.CRITICAL)
    from srctools.vmf import VMF, VisGroup
    from srctools.math import Vec, Matrix
    from srctools.instancing import Instance, InstanceFile, FixupStyle, collapse_one
    target = VMF()
    inst = Instance('inst', 'inst.vmf', Vec(), Matrix(), FixupStyle.PREFIX, (), ())
    if as_param:
        parent = VisGroup(target, 'Instances')
        target.vis_tree.append(parent)
        collapse_one(target, inst, InstanceFile(vis.vmf), visgroup=parent)
        new = parent.child_groups
    else:
        collapse_one(target, inst, InstanceFile(vis.vmf), visgroup=True)
        new = target.vis_tree
    pos = [i for i, g in enumerate(vis.vmf.vis_tree) if g is vis][0]
    return new[len(new) - len(vis.vmf.vis_tree) + pos], target


def do_copy(kind, obj, other, how='method', mapping=None):
    if kind == 'output' and how != 'method':
        return copy_via(obj, how)
    if mapping is not None and kind in ('entity', 'solid', 'side', 'visgroup'):
        # the same mapping dict handed to several copy() calls; the last copy is the one that is judged
        shared: dict = {}
        result = None
        for _ in range(mapping + 1):
            if kind == 'visgroup':
                result = obj.copy(other, shared) if other is not None else obj.copy(group_mapping=shared)
            elif other is not None:
                result = obj.copy(vmf_file=other, side_mapping=shared)
            else:
                result = obj.copy(side_mapping=shared)
        return result
    if kind == 'entity':
        return obj.copy(vmf_file=other) if other is not None else obj.copy()
    if kind == 'solid':
        return obj.copy(vmf_file=other) if other is not None else obj.copy()
    if kind == 'side':
        return obj.copy(vmf_file=other) if other is not None else obj.copy()
    if kind == 'output':
        return obj.copy()
    if kind == 'visgroup':
        return obj.copy(other) if other is not None else obj.copy()
    raise AssertionError(kind)


def execute_vmf(desc, ctx):
    from srctools.vmf import VMF
    kind, odesc = desc['obj']
    vmf = VMF()
    other = VMF() if desc['cross_map'] and kind != 'output' else None
    obj = build_obj(kind, odesc, vmf)
    before = strip_own_ids(content_of(kind, obj))
    before_text = export_of(kind, obj)
    how = desc.get('how', 'method') if kind == 'output' else 'method'
    if kind == 'visgroup' and desc.get('how', 'method') in ('copy.copy', 'copy.deepcopy'):
        how = 'collapse_param' if desc['how'] == 'copy.copy' else 'collapse_true'
        cp, other = collapse_copy(obj, how == 'collapse_param')
        ctx.label('visgroup_how:' + how)
    else:
        cp = do_copy(kind, obj, other, how, desc.get('mapping'))
        if desc.get('mapping') is not None and kind in ('entity', 'solid', 'side', 'visgroup'):
            ctx.label('mapping_dict:' + ('fresh' if desc['mapping'] == 0 else 'reused'))
    ctx.label('kind:' + kind, 'cross_map' if other is not None else 'same_map')
    if kind == 'output':
        ctx.label('output_how:' + how)
        if obj.inst_in or obj.inst_out:
            ctx.label('output_has:inst_names')
    sides = all_sides(kind, obj)
    has_disp = any(s.is_disp for s in sides)
    has_points = any(s.strata_points for s in sides)
    has_fix = kind == 'entity' and len(obj.fixup) > 0
    if has_disp:
        ctx.label('has:disp')
        if any(v.get('mb') for s in _side_descs(kind, odesc) if s.get('disp') for v in s['disp']['palette']):
            ctx.label('has:multiblend')
    if has_points:
        ctx.label('has:points')
    if has_fix:
        ctx.label('has:fixups')

    # (0) copying does not change the source
    ctx.check(strip_own_ids(content_of(kind, obj)) == before and export_of(kind, obj) == before_text,
              'source_unchanged', f'{kind}.copy() changed its source')
    # (1) completeness: walker + export text up to own ids
    got = strip_own_ids(content_of(kind, cp))
    d = first_diff(before, got)
    ctx.check(d is None, 'complete', f'{kind} copy ({"other map" if other else "same map"}) differs from its source at {d}',
              path=(d or '').split(':')[0])
    cp_text = export_of(kind, cp)
    if kind != 'output':
        ra, rb = renumbered(before_text), renumbered(cp_text)
        d2 = first_diff(ra, rb)
        ctx.check(d2 is None, 'complete_export', f'{kind} copy exports differently (ids renumbered) at {d2}')
    else:
        ctx.check(cp_text == before_text, 'complete_export', f'output copy exports {cp_text!r}, source {before_text!r}')
    # (2a) aliasing: no mutable object reachable from both
    ma, mb = reachable_mutables(obj), reachable_mutables(cp)
    shared = sorted(ma[i][0] + ' is ' + mb[i][0] for i in set(ma) & set(mb))
    ctx.check(not shared, 'aliasing', f'{kind} copy shares mutable state with its source: {shared[:5]}', shared=shared[:5])
    # (2b) behavioural independence
    victim, bystander = (cp, obj) if desc['mutate'] == 'copy' else (obj, cp)
    snap = strip_own_ids(content_of(kind, bystander))
    snap_text = export_of(kind, bystander)
    deep = False
    for mut in desc['muts']:
        deep = apply_mutation(kind, victim, mut, ctx) or deep
        now = strip_own_ids(content_of(kind, bystander))
        if now != snap or export_of(kind, bystander) != snap_text:
            ctx.fail('independent', f'mutation {mut} of the {desc["mutate"]} is visible through the other object at '
                                    f'{first_diff(snap, now)}', mutation=mut[0])
            break
    ctx.nontrivial((has_disp or has_points or has_fix) and deep)


def _side_descs(kind, odesc):
    if kind == 'side':
        return [odesc]
    if kind == 'solid':
        return odesc.get('sides', [])
    if kind == 'entity':
        return [s for sol in odesc.get('solids', []) for s in sol.get('sides', [])]
    return []


# ----------------------------------------------------------------------------------------------- Keyvalues

def kv_mut_strategy():
    name = gens.kv_name(4)
    return st.one_of(
        st.tuples(st.just('append'), st.integers(0, 30), name, gens.kv_value(4)).map(list),
        st.tuples(st.just('setitem'), st.integers(0, 30), name, gens.kv_value(4)).map(list),
        st.tuples(st.just('set_value'), st.integers(0, 30), gens.kv_value(4)).map(list),
        st.tuples(st.just('rename'), st.integers(0, 30), name).map(list),
        st.tuples(st.just('edit_name'), st.integers(0, 30), name).map(list),
        st.tuples(st.just('edit_value'), st.integers(0, 30), gens.kv_value(4)).map(list),
        st.tuples(st.just('iadd'), st.integers(0, 30), name).map(list),
        st.tuples(st.just('ensure'), st.integers(0, 30), st.sampled_from(['k', 'sub'])).map(list),
        st.tuples(st.just('set_key'), st.integers(0, 30), st.sampled_from(['k', 'sub'])).map(list),
        st.tuples(st.just('clear'), st.integers(0, 30)).map(list),
        st.tuples(st.just('delitem'), st.integers(0, 30)).map(list),
        st.tuples(st.just('extend'), st.integers(0, 30), name).map(list),
    )


def kv_strategy(tier: str):
    node = c01.node_strategy(tier)
    return st.fixed_dictionaries({
        'tree': st.lists(node, max_size=4),
        'named_root': st.one_of(st.none(), gens.kv_name(4)),
        'mutate': st.sampled_from(['copy', 'orig']),
        'muts': st.lists(kv_mut_strategy(), min_size=1, max_size=8),
        'how': st.sampled_from(['method', 'method', 'method', 'copy.deepcopy', 'pickle', 'pickle2']),
    })


def kv_blocks(root):
    out = [root] if root.has_children() else []
    for kv in root.iter_tree(blocks=True):
        if kv.has_children():
            out.append(kv)
    return out


def kv_all(root):
    return [kv for kv in root.iter_tree(blocks=True)]


def kv_apply(root, mut, ctx) -> bool:
    from srctools.keyvalues import Keyvalues
    op, idx = mut[0], mut[1]
    blocks = kv_blocks(root)
    every = kv_all(root)
    if op in ('append', 'setitem', 'iadd', 'ensure', 'set_key', 'clear', 'delitem', 'extend'):
        if not blocks:
            return False
        blk = blocks[idx % len(blocks)]
        was_empty = len(blk) == 0
        if was_empty:
            ctx.label('mut:into_empty_block')
        if op == 'append':
            blk.append(Keyvalues(mut[2], mut[3]))
        elif op == 'setitem':
            blk[mut[2]] = mut[3]
        elif op == 'iadd':
            blk += [Keyvalues(mut[2], 'v')]
        elif op == 'extend':
            blk.extend([Keyvalues(mut[2], 'v'), Keyvalues('blk', [])])
        elif op == 'ensure':
            blk.ensure_exists(mut[2])
        elif op == 'set_key':
            blk.set_key(mut[2], 'sk')
        elif op == 'clear':
            blk.clear()
        elif op == 'delitem':
            if len(blk):
                del blk[0]
        return was_empty or blk is not root
    if not every:
        return False
    kv = every[idx % len(every)]
    if op == 'set_value':
        if not kv.has_children():
            kv.value = mut[2]
        return True
    if op == 'rename':
        kv.name = mut[2]
        return True
    if op == 'edit_name':
        kv.edit(name=mut[2])
        return True
    if op == 'edit_value':
        if not kv.has_children():
            kv.edit(value=mut[2])
        return True
    return False


def kv_shape(kv):
    return c01.shape(kv) if kv.real_name is not None else [None, [c01.shape(c) for c in kv]]


def has_empty_block(nodes) -> bool:
    for name, value in nodes:
        if isinstance(value, list) and (not value or has_empty_block(value)):
            return True
    return False


def execute_kv(desc, ctx):
    from srctools.keyvalues import Keyvalues
    children = [c01.build(n) for n in desc['tree']]
    root = Keyvalues.root(*children) if desc['named_root'] is None else Keyvalues(desc['named_root'], children)
    before = kv_shape(root)
    how = desc.get('how', 'method')
    ctx.label('how:' + how)
    cp = root.copy() if how == 'method' else copy_via(root, how)
    ctx.check(kv_shape(root) == before, 'source_unchanged', 'Keyvalues.copy() changed its source')
    ctx.check(kv_shape(cp) == before, 'complete', f'copy {kv_shape(cp)!r} differs from source {before!r}')
    ctx.check(cp.serialise() == root.serialise(), 'complete_export', 'copy serialises differently')
    a = {id(k) for k in kv_all(root)} | {id(root)}
    b = {id(k) for k in kv_all(cp)} | {id(cp)}
    ctx.check(not (a & b), 'aliasing', 'copy shares Keyvalues nodes with its source')
    victim, bystander = (cp, root) if desc['mutate'] == 'copy' else (root, cp)
    deep = False
    for mut in desc['muts']:
        deep = kv_apply(victim, mut, ctx) or deep
        now = kv_shape(bystander)
        if now != before:
            ctx.fail('independent', f'mutation {mut} of the {desc["mutate"]} is visible through the other tree: {before!r} -> {now!r}',
                     mutation=mut[0])
            break
    if has_empty_block(desc['tree']) or (not desc['tree']):
        ctx.label('has:empty_block')
    ctx.nontrivial((has_empty_block(desc['tree']) or not desc['tree']) and deep)


def kvop_strategy(tier: str):
    node = c01.node_strategy(tier)
    return st.fixed_dictionaries({
        'left': st.lists(node, max_size=4),
        'left_name': st.one_of(st.none(), gens.kv_name(4)),
        'right': st.lists(node, max_size=4),
        'right_form': st.sampled_from(['root', 'list', 'tuple', 'generator', 'named_block']),
        'op': st.sampled_from(['add', 'iadd', 'extend', 'append']),
        'then': st.lists(kv_mut_strategy(), max_size=4),
    })


def execute_kvop(desc, ctx):
    from srctools.keyvalues import Keyvalues
    lch = [c01.build(n) for n in desc['left']]
    left = Keyvalues.root(*lch) if desc['left_name'] is None else Keyvalues(desc['left_name'], lch)
    rch = [c01.build(n) for n in desc['right']]
    form = desc['right_form']
    if form == 'root':
        right = Keyvalues.root(*rch)
    elif form == 'named_block':
        right = Keyvalues('RightBlock', rch)
    elif form == 'list':
        right = list(rch)
    elif form == 'tuple':
        right = tuple(rch)
    else:
        right = (k for k in rch)
    lshape = kv_shape(left)
    rshapes = [c01.shape(c) for c in rch]
    op = desc['op']
    ctx.label('op:' + op, 'right:' + form)
    if form == 'named_block':
        want_children = lshape[1] + [['RightBlock', rshapes]]
    else:
        want_children = lshape[1] + rshapes
    with warnings.catch_warnings():
        warnings.simplefilter('ignore', DeprecationWarning)
        if op == 'add':
            res = left + right
        elif op == 'iadd':
            res = left
            res += right
        elif op == 'extend':
            if form == 'named_block':
                right = [right]
            left.extend(right)
            res = left
        else:
            if form == 'generator':
                right = list(right)
            left.append(right)
            res = left
    if op == 'add':
        # documented as producing a new value: operands unchanged
        ctx.check(kv_shape(left) == lshape, 'operand_unchanged', f"'+' changed its left operand: {lshape!r} -> {kv_shape(left)!r}",
                  right_form=form)
        ctx.check(res is not left, 'operand_unchanged', "'+' returned its left operand")
    ctx.check([c01.shape(c) for c in rch] == rshapes, 'operand_unchanged', f'{op} changed its right operand')
    got = kv_shape(res)
    ctx.check(got[1] == want_children and got[0] == lshape[0], 'result',
              f'{op} with right={form}: result {got!r}, want children {want_children!r}', right_form=form)
    # result holds copies: editing it leaves the right operand (and for + the left) unchanged
    for mut in desc['then']:
        kv_apply(res, mut, ctx)
    if op == 'add':    # documented: "This deep-copies the Keyvalue tree first"; append() by contrast stores the object given
        ctx.check([c01.shape(c) for c in rch] == rshapes, 'independent', "editing the result of '+' changed the right operand")
        ctx.check(kv_shape(left) == lshape, 'independent', "editing the result of '+' changed the left operand")
    ctx.nontrivial(bool(desc['right']) and bool(desc['left']))


# ----------------------------------------------------------------------------------------------- math operators

MATH_TYPES = ['Vec', 'FrozenVec', 'Angle', 'FrozenAngle', 'Matrix', 'FrozenMatrix', 'tuple', 'float']
MATH_OPS = ['+', '-', '*', '/', '//', '%', '@', 'neg', 'abs', 'cross', 'dot', 'norm', 'lerp', 'divmod', 'round',
            'rotate_by', 'transpose', 'inverse', 'to_angle', 'radd', 'rsub', 'rmul', 'rmatmul', 'min', 'max', 'bbox']


def math_strategy(tier: str):
    num = st.one_of(st.sampled_from([0.0, 1.0, -2.5, 90.0, 359.5, 1e-3]), st.floats(-1000, 1000, allow_nan=False))
    trip = st.tuples(num, num, num).map(list)
    return st.fixed_dictionaries({
        'lt': st.sampled_from(MATH_TYPES[:6]), 'rt': st.sampled_from(MATH_TYPES),
        'l': trip, 'r': trip, 'op': st.sampled_from(MATH_OPS),
    })


def math_build(tname, vals):
    from srctools import math as M
    if tname == 'tuple':
        return tuple(vals)
    if tname == 'float':
        return vals[0] or 2.0
    if tname in ('Vec', 'FrozenVec', 'Angle', 'FrozenAngle'):
        return getattr(M, tname)(*vals)
    ang = M.Angle(*vals)
    return getattr(M, tname).from_angle(ang)


def math_snap(x):
    from srctools import math as M
    if isinstance(x, (M.Vec, M.FrozenVec)):
        return ('v', x.x.hex(), x.y.hex(), x.z.hex())
    if isinstance(x, (M.Angle, M.FrozenAngle)):
        return ('a', x.pitch.hex(), x.yaw.hex(), x.roll.hex())
    if isinstance(x, (M.Matrix, M.FrozenMatrix)):
        return ('m',) + tuple(float(x[i, j]).hex() for i in range(3) for j in range(3))
    return ('o', repr(x))


def execute_math(desc, ctx):
    import operator
    from srctools import math as M
    left = math_build(desc['lt'], desc['l'])
    right = math_build(desc['rt'], desc['r'])
    ls, rs = math_snap(left), math_snap(right)
    op = desc['op']
    binops = {'+': operator.add, '-': operator.sub, '*': operator.mul, '/': operator.truediv, '//': operator.floordiv,
              '%': operator.mod, '@': operator.matmul, 'divmod': divmod}
    res = None
    try:
        if op in binops:
            res = binops[op](left, right)
        elif op == 'radd':
            res = right + left
        elif op == 'rsub':
            res = right - left
        elif op == 'rmul':
            res = right * left
        elif op == 'rmatmul':
            res = right @ left
        elif op == 'neg':
            res = -left
        elif op == 'abs':
            res = abs(left)
        elif op == 'round':
            res = round(left, 2)
        elif op in ('cross', 'dot', 'min', 'max', 'lerp', 'bbox', 'norm', 'rotate_by', 'transpose', 'inverse', 'to_angle'):
            fn = getattr(left, op, None)
            if fn is None:
                ctx.label('op_not_supported')
                return
            vecish = isinstance(right, (M.Vec, M.FrozenVec, tuple))
            if op in ('cross', 'dot', 'min', 'max') and not vecish:
                ctx.label('op_not_supported')
                return
            if op in ('cross', 'dot'):
                res = fn(right)
            elif op in ('min', 'max'):
                if isinstance(left, M.Vec):        # documented as in-place on the mutable type
                    ctx.label('op_inplace_by_contract')
                    return
                res = fn(right)
            elif op == 'lerp':
                res = M.Vec.lerp(0.5, 0.0, 1.0, left, right) if isinstance(left, (M.Vec, M.FrozenVec)) and isinstance(right, (M.Vec, M.FrozenVec)) else None
            elif op == 'bbox':
                res = type(left).bbox(left, right) if isinstance(right, (M.Vec, M.FrozenVec)) and isinstance(left, (M.Vec, M.FrozenVec)) else None
            elif op == 'norm':
                res = fn() if desc['l'] != [0.0, 0.0, 0.0] else None
            elif op == 'rotate_by':
                ctx.label('op_inplace_by_contract')
                return
            else:
                res = fn()
    except (TypeError, ZeroDivisionError, ValueError, ArithmeticError, AttributeError) as exc:
        ctx.label('op_rejected:' + type(exc).__name__)
        res = None
    ctx.label(f'pair:{desc["lt"]}/{desc["rt"]}')
    ctx.check(math_snap(left) == ls, 'operand_unchanged',
              f'{op} changed its left operand {desc["lt"]}: {ls} -> {math_snap(left)} (right {desc["rt"]})', op=op, lt=desc['lt'])
    ctx.check(math_snap(right) == rs, 'operand_unchanged',
              f'{op} changed its right operand {desc["rt"]}: {rs} -> {math_snap(right)} (left {desc["lt"]})', op=op, rt=desc['rt'])
    if res is not None and not isinstance(res, (float, int, tuple, bool)):
        ctx.check(res is not left or type(left).__name__.startswith('Frozen'), 'operand_unchanged',
                  f'{op} returned its (mutable) left operand instead of a new value')
    ctx.nontrivial(res is not None)


SUBCHECKS = [
    Sub('vmf_copy', execute_vmf, strategy=obj_strategy, quick=2400, thorough=80000, floor=50, quick_shards=8,
        must_hit=('kind:entity', 'kind:solid', 'kind:side', 'kind:output', 'kind:visgroup', 'cross_map', 'has:disp',
                  'has:multiblend', 'has:points', 'has:fixups', 'mut:vec', 'mut:disp_vertex', 'mut:allowed_vert', 'mut:fixup', 'mut:output',
                  'mapping_dict:reused', 'mapping_dict:fresh', 'output_how:pickle', 'output_how:copy.copy', 'visgroup_how:collapse_param')),
    Sub('kv_copy', execute_kv, strategy=kv_strategy, quick=2000, thorough=60000, floor=30,
        must_hit=('has:empty_block', 'mut:into_empty_block')),
    Sub('kv_operators', execute_kvop, strategy=kvop_strategy, quick=2000, thorough=60000, floor=50,
        must_hit=('op:add', 'op:iadd', 'right:list', 'right:root', 'right:generator', 'right:named_block')),
    Sub('math_operators', execute_math, strategy=math_strategy, quick=6000, thorough=200000, floor=100),
]
MATCHERS = {}
