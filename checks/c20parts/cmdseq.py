"""C20 part: Hammer command sequences (``srctools.cmdseq.write`` / ``parse``).

Value -> ``write`` -> ``parse`` -> structural walker equality -> ``write`` again gives identical bytes;
a string longer than its fixed-width field must make ``write`` raise ``ValueError`` (never truncate).
"""
from __future__ import annotations

import io

from hypothesis import strategies as st

from vlib.core import Sub
from checks.c20parts._walkguard import guard

ASSUMPTIONS = [
    'strings are ASCII 0x01-0x7f without NUL (the fields are NUL-terminated C strings written with encode("ascii"))',
    'sequence names <= 128 characters, exe/args/ensure_file <= 260 (the field widths; pad_string accepts a string that '
    'fills the field completely and strip_cstring reads it back, so full-width strings are in the domain); longer '
    'strings are generated only by cmdseq_overlong, where ValueError is required',
    'sequence names are distinct (the value is a dict); enabled/use_proc_win/no_wait are bool; exe is a str or a '
    'SpecialCommand member; no sample file exists under /repo/tests, so the fixed inputs are Hammer-like sequences '
    'built through the constructors',
]

NAME_W = 128
FIELD_W = 260
SPECIALS = ['CHANGE_DIR', 'COPY_FILE', 'DELETE_FILE', 'RENAME_FILE']

# ASCII without NUL; weighted towards characters that matter in paths / command lines.
_ASCII = ''.join(chr(i) for i in range(1, 128))
_COMMON = 'abcXYZ019 $.\\/:-_"%\t'


def _char():
    return st.one_of(st.sampled_from(_COMMON), st.sampled_from(_ASCII))


def _text(width: int):
    """Mostly short strings; sometimes exactly width-1 or width characters."""
    short = st.text(_char(), max_size=12)
    boundary = st.tuples(st.text(_char(), min_size=1, max_size=5), st.sampled_from([width - 1, width])).map(
        lambda t: (t[0] * (width // len(t[0]) + 1))[:t[1]])
    return st.one_of(short, short, short, boundary)


def _exe():
    return st.one_of(
        _text(FIELD_W),
        st.sampled_from(['$bsp_exe', '$vis_exe', '$light_exe', '$game_exe', 'Copy File', 'Change Directory']),
        st.sampled_from(SPECIALS).map(lambda n: {'special': n}),
    )


def _command():
    return st.fixed_dictionaries({
        'exe': _exe(),
        'args': _text(FIELD_W),
        'enabled': st.booleans(),
        'ensure_file': st.one_of(st.none(), _text(FIELD_W)),
        'use_proc_win': st.booleans(),
        'no_wait': st.booleans(),
    })


def _seqs(tier: str):
    max_cmds = 4 if tier == 'quick' else 8
    return st.lists(
        st.tuples(_text(NAME_W), st.lists(_command(), max_size=max_cmds)).map(list),
        max_size=4, unique_by=lambda p: p[0],
    )


def strategy(tier: str):
    return st.fixed_dictionaries({'seqs': _seqs(tier)})


def overlong_strategy(tier: str):
    """A valid value plus one over-long string put into one field of one place."""
    return st.fixed_dictionaries({
        'seqs': _seqs(tier),
        'where': st.sampled_from(['name', 'exe', 'args', 'ensure_file']),
        'extra': st.one_of(st.integers(1, 3), st.integers(1, 300)),
        'fill': st.text(_char(), min_size=1, max_size=4),
        'seq_ix': st.integers(0, 1 << 16),
        'cmd_ix': st.integers(0, 1 << 16),
    })


def fixed(tier: str):
    """Hammer-like default sequences (there is no CmdSeq sample under /repo/tests)."""
    yield {'seqs': [
        ['Default', [
            {'exe': '$bsp_exe', 'args': '-game $gamedir $path\\$file', 'enabled': True, 'ensure_file': None,
             'use_proc_win': True, 'no_wait': False},
            {'exe': '$vis_exe', 'args': '-game $gamedir $path\\$file', 'enabled': True, 'ensure_file': None,
             'use_proc_win': True, 'no_wait': False},
            {'exe': '$light_exe', 'args': '-hdr -game $gamedir $path\\$file', 'enabled': False, 'ensure_file': None,
             'use_proc_win': True, 'no_wait': False},
            {'exe': {'special': 'COPY_FILE'}, 'args': '$path\\$file.bsp $bspdir\\$file.bsp', 'enabled': True,
             'ensure_file': '$path\\$file.bsp', 'use_proc_win': True, 'no_wait': False},
            {'exe': '$game_exe', 'args': '-dev -console +map $file', 'enabled': True, 'ensure_file': None,
             'use_proc_win': False, 'no_wait': True},
        ]],
        ['Fast', []],
    ]}
    yield {'seqs': []}


def build(seqs):
    from srctools.cmdseq import Command, SpecialCommand
    res = {}
    for name, cmds in seqs:
        out = []
        for c in cmds:
            exe = c['exe']
            if isinstance(exe, dict):
                exe = SpecialCommand[exe['special']]
            out.append(Command(
                exe, c['args'], enabled=c['enabled'], ensure_file=c['ensure_file'],
                use_proc_win=c['use_proc_win'], no_wait=c['no_wait'],
            ))
        res[name] = out
    return res


def walk(value):
    """Independent structural view: ordered list of (name, [field tuples]) with explicit types."""
    from srctools.cmdseq import SpecialCommand
    res = []
    for name, cmds in value.items():
        lst = []
        for c in cmds:
            exe = c.exe
            exe_v = ['special', exe.name] if isinstance(exe, SpecialCommand) else [type(exe).__name__, exe]
            lst.append([
                exe_v, [type(c.args).__name__, c.args],
                [type(c.enabled).__name__, c.enabled],
                None if c.ensure_file is None else [type(c.ensure_file).__name__, c.ensure_file],
                [type(c.use_proc_win).__name__, c.use_proc_win],
                [type(c.no_wait).__name__, c.no_wait],
            ])
        res.append([[type(name).__name__, name], lst])
    return res


def want_from_desc(seqs):
    """What the descriptor asks for, written in the walker's form (not derived from srctools objects)."""
    res = []
    for name, cmds in seqs:
        lst = []
        for c in cmds:
            exe = c['exe']
            exe_v = ['special', exe['special']] if isinstance(exe, dict) else ['str', exe]
            lst.append([
                exe_v, ['str', c['args']], ['bool', c['enabled']],
                None if c['ensure_file'] is None else ['str', c['ensure_file']],
                ['bool', c['use_proc_win']], ['bool', c['no_wait']],
            ])
        res.append([['str', name], lst])
    return res


def classify(seqs, ctx) -> bool:
    nontrivial = False
    if not seqs:
        ctx.label('no_sequences')
    if len(seqs) > 1:
        ctx.label('multi_sequence')
    for name, cmds in seqs:
        if len(name) == NAME_W:
            ctx.label('name_full_width')
        elif len(name) == NAME_W - 1:
            ctx.label('name_width_minus_1')
        if not cmds:
            ctx.label('empty_sequence')
        for c in cmds:
            if isinstance(c['exe'], dict):
                ctx.label('special:' + c['exe']['special'])
                nontrivial = True
            else:
                ctx.label('exe_str')
                if len(c['exe']) == FIELD_W:
                    ctx.label('field_full_width')
            if len(c['args']) == FIELD_W or (c['ensure_file'] is not None and len(c['ensure_file']) == FIELD_W):
                ctx.label('field_full_width')
            if c['ensure_file'] is not None:
                ctx.label('ensure_file' if c['ensure_file'] else 'ensure_file_empty')
                nontrivial = True
            if not c['enabled']:
                ctx.label('disabled')
                nontrivial = True
            if not c['use_proc_win']:
                ctx.label('no_proc_win')
                nontrivial = True
            if c['no_wait']:
                ctx.label('no_wait')
                nontrivial = True
    return nontrivial


def execute(desc, ctx):
    from srctools import cmdseq
    seqs = desc['seqs']
    ctx.nontrivial(classify(seqs, ctx))
    value = build(seqs)
    want = want_from_desc(seqs)
    made = guard(ctx, 'constructors', walk, value)
    ctx.check(made == want, 'constructors', f'constructed value differs from the request:\n want={want!r}\n got ={made!r}')

    buf = io.BytesIO()
    cmdseq.write(value, buf)
    data = buf.getvalue()
    ctx.check(guard(ctx, 'no_mutation', walk, value) == want, 'no_mutation', 'write() changed the value')
    parsed = cmdseq.parse(io.BytesIO(data))
    if not ctx.check(isinstance(parsed, dict), 'roundtrip', f'parse() returned {type(parsed).__name__}, not a dict'):
        return
    got = guard(ctx, 'roundtrip', walk, parsed)
    if not ctx.check(got == want, 'roundtrip',
                     f'parse(write(x)) differs\n want={want!r}\n got ={got!r}\n bytes={len(data)}'):
        return
    ctx.check(parsed == value, 'roundtrip_eq', f'parse(write(x)) != x by the classes\' own ==:\n {value!r}\n {parsed!r}')
    buf2 = io.BytesIO()
    cmdseq.write(parsed, buf2)
    data2 = buf2.getvalue()
    if data2 != data:
        pos = next((i for i, (a, b) in enumerate(zip(data, data2)) if a != b), min(len(data), len(data2)))
        ctx.fail('second_write_identical',
                 f'second-generation bytes differ at offset {pos} (len {len(data)} vs {len(data2)}): '
                 f'{data[max(0, pos - 8):pos + 8].hex()} vs {data2[max(0, pos - 8):pos + 8].hex()}')


def execute_overlong(desc, ctx):
    from srctools import cmdseq
    seqs = [[name, [dict(c) for c in cmds]] for name, cmds in desc['seqs']]
    where = desc['where']
    width = NAME_W if where == 'name' else FIELD_W
    long_s = (desc['fill'] * (width // len(desc['fill']) + 400))[:width + desc['extra']]
    if not seqs:
        seqs = [['seq', []]]
    si = desc['seq_ix'] % len(seqs)
    if where == 'name':
        if any(n == long_s for n, _ in seqs):
            return
        seqs[si][0] = long_s
    else:
        if not seqs[si][1]:
            seqs[si][1] = [{'exe': 'x', 'args': '', 'enabled': True, 'ensure_file': None,
                            'use_proc_win': True, 'no_wait': False}]
        cmd = seqs[si][1][desc['cmd_ix'] % len(seqs[si][1])]
        cmd[where] = long_s
    ctx.label('overlong:' + where, 'extra:' + ('1-3' if desc['extra'] <= 3 else 'more'))
    ctx.nontrivial(True)
    value = build(seqs)
    buf = io.BytesIO()
    try:
        cmdseq.write(value, buf)
    except ValueError:
        ctx.label('raised_ValueError')
        return
    # No error: show what came back.
    try:
        back = walk(cmdseq.parse(io.BytesIO(buf.getvalue())))
    except Exception as exc:  # only for the message; the clause has already failed
        back = f'<parse failed: {exc!r}>'
    ctx.fail('overlong_rejected',
             f'write() accepted a {len(long_s)}-character {where} (field width {width}) without ValueError; '
             f'read back: {back!r}', where=where)


SUBS = [
    Sub('cmdseq_roundtrip', execute, strategy=strategy, fixed=fixed, quick=1600, thorough=15000, floor=150, quick_shards=8,
        must_hit=('special:CHANGE_DIR', 'special:COPY_FILE', 'special:DELETE_FILE', 'special:RENAME_FILE',
                  'ensure_file', 'ensure_file_empty', 'disabled', 'no_proc_win', 'no_wait', 'name_full_width',
                  'field_full_width', 'empty_sequence', 'multi_sequence')),
    Sub('cmdseq_overlong', execute_overlong, strategy=overlong_strategy, quick=400, thorough=4000, floor=50,
        must_hit=('overlong:name', 'overlong:exe', 'overlong:args', 'overlong:ensure_file', 'raised_ValueError')),
]
MATCHERS = {}
