#!/bin/sh
# Run the repository's own suite against the working-tree sources (the baseline command imports the
# installed 2.7.0 copy instead, see DESIGN.md 0.1) and compare the failing set with the 12 tests that
# need the Cython extensions.  Usage: repo_tests.sh [repo dir]   -> prints SAME or the differences.
REPO=${1:-/repo}
OUT=$(mktemp)
cd "$REPO" && PYTHONPATH="$REPO/src:/verif/shims" PYTHONDONTWRITEBYTECODE=1 \
  /venv/bin/python -m pytest tests -q -p no:cacheprovider --timeout=900 -q > "$OUT" 2>&1
tail -1 "$OUT"
grep '^FAILED\|^ERROR' "$OUT" | sed 's/ - .*//' | sort > "$OUT.f"
if diff /verif/tools/src_tests_baseline_failed.txt "$OUT.f"; then echo "SAME failing set as unmodified tree (12 Cython-only)"; rc=0; else echo "DIFFERENT failing set"; rc=1; fi
rm -f "$OUT" "$OUT.f"; exit $rc
