"""Independent Source-engine BSP writer/reader and rooted-graph canonicaliser (harness side, C10/C11).

Nothing in here imports srctools at module level; `canon()` recognises srctools classes by duck typing
(`attrs` fields, class names) so that it does not share code with the reader/writer under test.

Public API
----------
LAYOUTS                      name -> Layout (magic, version number, L4D2 header order, struct family)
LUMP_NAMES / LUMP_INDEX      the 64 lump slots (primary names) and the inverse mapping
VIEWS / VIEW_ORDER           view name -> lump ids it owns (ints, or b'sprp'/b'dprp'); fixed access order
VIEW_OWNED / OPAQUE_LUMPS    lump indices that belong to some view / that have no structured view
source_lzma_pack/unpack      Source's 17-byte LZMA header around a raw LZMA1 stream (Python's lzma)
write_container(...)         header + 64-entry lump table + lump data + game-lump directory -> bytes
read_container(blob, l4d2)   independent reader of the same (used for byte-level comparisons)
rle_encode(row)              visibility run-length coder (independent of srctools.bsp.runlength_encode)
skeleton(layout)             minimal consistent *world* descriptor (JSON-able)
resolve_world(raw)           turn a raw generated world (arbitrary ints) into a consistent one (indices modulo)
encode_world(world)          world descriptor -> (lumps, game_lumps) ;  build_bsp(world) -> bytes
world_strategy(tier, ...)    Hypothesis strategy of raw worlds
canon(obj, drop=...)         rooted-graph canonical form; first_diff(a, b) -> path of first difference
"""
from __future__ import annotations

import io
import lzma
import struct
import sys
import zipfile
from typing import Any, Optional

sys.setrecursionlimit(max(sys.getrecursionlimit(), 20000))

# ----------------------------------------------------------------------------------------------------------------
# Lump slots

LUMP_NAMES = [
    'ENTITIES', 'PLANES', 'TEXDATA', 'VERTEXES', 'VISIBILITY', 'NODES', 'TEXINFO', 'FACES', 'LIGHTING',
    'OCCLUSION', 'LEAFS', 'FACEIDS', 'EDGES', 'SURFEDGES', 'MODELS', 'WORLDLIGHTS', 'LEAFFACES', 'LEAFBRUSHES',
    'BRUSHES', 'BRUSHSIDES', 'AREAS', 'AREAPORTALS', 'PORTALS', 'CLUSTERS', 'PORTALVERTS', 'CLUSTERPORTALS',
    'DISPINFO', 'ORIGINALFACES', 'PHYSDISP', 'PHYSCOLLIDE', 'VERTNORMALS', 'VERTNORMALINDICES',
    'DISP_LIGHTMAP_ALPHAS', 'DISP_VERTS', 'DISP_LIGHTMAP_SAMPLE_POSITIONS', 'GAME_LUMP', 'LEAFWATERDATA',
    'PRIMITIVES', 'PRIMVERTS', 'PRIMINDICES', 'PAKFILE', 'CLIPPORTALVERTS', 'CUBEMAPS', 'TEXDATA_STRING_DATA',
    'TEXDATA_STRING_TABLE', 'OVERLAYS', 'LEAFMINDISTTOWATER', 'FACE_MACRO_TEXTURE_INFO', 'DISP_TRIS',
    'PROP_BLOB', 'WATEROVERLAYS', 'LEAF_AMBIENT_INDEX_HDR', 'LEAF_AMBIENT_INDEX', 'LIGHTING_HDR',
    'WORLDLIGHTS_HDR', 'LEAF_AMBIENT_LIGHTING_HDR', 'LEAF_AMBIENT_LIGHTING', 'XZIPPAKFILE', 'FACES_HDR',
    'MAP_FLAGS', 'OVERLAY_FADES', 'OVERLAY_SYSTEM_LEVELS', 'PHYSLEVEL', 'DISP_MULTIBLEND',
]
assert len(LUMP_NAMES) == 64
LUMP_INDEX = {n: i for i, n in enumerate(LUMP_NAMES)}
L = LUMP_INDEX
GAME_LUMP = L['GAME_LUMP']
PAKFILE = L['PAKFILE']

# view name -> lumps it owns (first = main lump).  FACEIDS is rewritten by the faces writers, so it is
# counted as owned by 'faces' (it is parsed into Face.hammer_id).
VIEWS: dict[str, list] = {
    'pakfile': [L['PAKFILE']],
    'ents': [L['ENTITIES']],
    'textures': [L['TEXDATA_STRING_DATA'], L['TEXDATA_STRING_TABLE']],
    'texinfo': [L['TEXINFO'], L['TEXDATA']],
    'cubemaps': [L['CUBEMAPS']],
    'overlays': [L['OVERLAYS'], L['OVERLAY_FADES'], L['OVERLAY_SYSTEM_LEVELS']],
    'bmodels': [L['MODELS'], L['PHYSCOLLIDE']],
    'brushes': [L['BRUSHES'], L['BRUSHSIDES']],
    'visleafs': [L['LEAFS'], L['LEAFFACES'], L['LEAFBRUSHES'], L['LEAFMINDISTTOWATER']],
    'water_leaf_info': [L['LEAFWATERDATA']],
    'nodes': [L['NODES']],
    'visibility': [L['VISIBILITY']],
    'vertexes': [L['VERTEXES']],
    'surfedges': [L['SURFEDGES'], L['EDGES']],
    'planes': [L['PLANES']],
    'faces': [L['FACES'], L['FACEIDS']],
    'orig_faces': [L['ORIGINALFACES']],
    'hdr_faces': [L['FACES_HDR']],
    'primitives': [L['PRIMITIVES'], L['PRIMINDICES'], L['PRIMVERTS']],
    'props': [b'sprp'],
    'detail_props': [b'dprp'],
}
# Fixed order in which the comparison phase touches every view.
VIEW_ORDER = [
    'pakfile', 'ents', 'textures', 'texinfo', 'planes', 'vertexes', 'surfedges', 'primitives', 'orig_faces',
    'faces', 'hdr_faces', 'brushes', 'visleafs', 'nodes', 'water_leaf_info', 'visibility', 'bmodels',
    'cubemaps', 'overlays', 'props', 'detail_props',
]
assert sorted(VIEW_ORDER) == sorted(VIEWS)
VIEW_OWNED = sorted({i for v in VIEWS.values() for i in v if isinstance(i, int)})
OPAQUE_LUMPS = [i for i in range(64) if i not in VIEW_OWNED and i != GAME_LUMP]
# Views whose reader pulls in other views (used for the non-triviality rule of C10).
REBUILT_FROM_OTHERS = {
    'nodes', 'visleafs', 'faces', 'orig_faces', 'hdr_faces', 'bmodels', 'props', 'water_leaf_info', 'texinfo',
    'overlays', 'brushes', 'surfedges',
}


class Layout:
    def __init__(self, name: str, magic: bytes, version: int, l4d2: bool, fam: str) -> None:
        self.name, self.magic, self.version, self.l4d2, self.fam = name, magic, version, l4d2, fam

    def __repr__(self) -> str:
        return f'<Layout {self.name}>'


LAYOUTS = {
    lay.name: lay for lay in [
        Layout('v19', b'VBSP', 19, False, 'v19'),
        Layout('v20', b'VBSP', 20, False, 'std'),
        Layout('v21', b'VBSP', 21, False, 'std'),
        Layout('v21_l4d2', b'VBSP', 21, True, 'std'),
        Layout('v22', b'VBSP', 22, False, 'infra'),
        Layout('v25', b'VBSP', 25, False, 'chaos'),
        Layout('v43', b'FART', 43, False, 'vitamin'),
        # same struct family as v20, other version numbers the reader knows
        Layout('v17', b'VBSP', 17, False, 'v19'),
        Layout('v23', b'VBSP', 23, False, 'std'),
        Layout('v29', b'VBSP', 29, False, 'std'),
        Layout('v42', b'VBSP', 42, False, 'std'),
    ]
}
MAIN_LAYOUTS = ['v19', 'v20', 'v21', 'v21_l4d2', 'v22', 'v25', 'v43']

# Record formats, typed from Valve's bspfile.h (std/v19), the INFRA note in BSPSource, the Chaos v25 wiki page and
# (no public description exists) srctools' own table for VitaminSource.
_STD = dict(
    face='<HBBihhhh4sif2i2iiHHI', faceid='<H', edge='<HH', prim='<HHHHH', primidx='<H',
    node='<iii6hHHh2x', leaf='<Ihh6h4Hh2x', leafface='<H', leafbrush='<H', area_off=7,
    water='<ffH2x', side='<HhhH', propleaf='<H', ambient=False, leaf_float=False,
)
FAM = {
    'std': _STD,
    'v19': dict(_STD, leaf='<Ihh6h4Hh24s2x', ambient=True),
    'infra': dict(_STD, prim='<IIIHH'),
    'chaos': dict(
        _STD, face='<IBB2x5i4sif2i2ii3I', faceid='<I', edge='<II', prim='<5I', primidx='<I',
        node='<iii6fIIh2x', leaf='<Iii6f4Ii', leafface='<I', leafbrush='<I', area_off=17,
        water='<ffI', side='<IiiH2x', propleaf='<I', leaf_float=True,
    ),
    'vitamin': dict(_STD, leaf='<Ihh6I4HhBx', face='<5i4iB3x', side='<IIhBB', node='<iii6iHHh2x'),
}
assert struct.calcsize(_STD['face']) == 56 and struct.calcsize(FAM['chaos']['face']) == 72
assert struct.calcsize(FAM['chaos']['leaf']) == 56 and struct.calcsize(_STD['leaf']) == 32

# Static prop versions: name -> (lump version number, record size).  'mesa' is only recognisable in a v20 file and
# 'V11' only elsewhere (srctools: VERSIONS.BLACK_MESA is an alias of 20).
SPRP_VERSIONS = {
    'V4': (4, 56), 'V5': (5, 60), 'V6': (6, 64), 'V7': (7, 68), 'V8': (8, 68), 'V9': (9, 72), 'V10': (10, 76),
    'V11': (11, 80), 'V_LIGHTMAP_v7': (7, 72), 'V_LIGHTMAP_v10': (10, 72), 'V_LIGHTMAP_MESA': (11, 80),
    'V_CHAOS_V12': (12, 80), 'V_CHAOS_V13': (13, 88),
}


def sprp_flag_mask(ver: str) -> int:
    """Bits of StaticProp.flags the given version stores (8-bit field, plus a 32-bit second field from v10 on; the
    lightmap variants replace the byte by one 32-bit field, Mesa adds the second field on top, overlapping)."""
    vnum = SPRP_VERSIONS[ver][0]
    if ver.startswith('V_LIGHTMAP'):
        return 0xFFFFFFFF
    return (1 << 40) - 1 if vnum >= 10 else 0xFF


def sprp_versions_for(layout: str) -> list[str]:
    """Static-prop versions that the reader can tell apart in a file of this layout."""
    is20 = LAYOUTS[layout].version == 20
    return [v for v in SPRP_VERSIONS if (v != 'V11' if is20 else v != 'V_LIGHTMAP_MESA')]


# ----------------------------------------------------------------------------------------------------------------
# LZMA in Source's wrapping: 'LZMA', u32 actual size, u32 lzma size, 5 property bytes (lc/lp/pb byte, u32 dict size).

def source_lzma_pack(data: bytes, lc: int = 3, lp: int = 0, pb: int = 2, dict_size: int = 1 << 16) -> bytes:
    filt = {'id': lzma.FILTER_LZMA1, 'dict_size': dict_size, 'lc': lc, 'lp': lp, 'pb': pb}
    body = lzma.compress(data, format=lzma.FORMAT_RAW, filters=[filt])
    prop = (pb * 5 + lp) * 9 + lc
    return b'LZMA' + struct.pack('<II', len(data), len(body)) + bytes([prop]) + struct.pack('<I', dict_size) + body


def source_lzma_unpack(blob: bytes) -> bytes:
    if blob[:4] != b'LZMA':
        raise ValueError('no LZMA signature')
    actual, lzsize = struct.unpack_from('<II', blob, 4)
    prop = blob[12]
    (dict_size,) = struct.unpack_from('<I', blob, 13)
    lc = prop % 9
    rest = prop // 9
    lp = rest % 5
    pb = rest // 5
    filt = {'id': lzma.FILTER_LZMA1, 'dict_size': max(dict_size, 4096), 'lc': lc, 'lp': lp, 'pb': pb}
    dec = lzma.LZMADecompressor(lzma.FORMAT_RAW, filters=[filt])
    out = dec.decompress(blob[17:17 + lzsize], max_length=actual) if actual else b''
    if len(out) != actual:
        raise ValueError(f'LZMA stream gave {len(out)} bytes, header says {actual}')
    return out


# ----------------------------------------------------------------------------------------------------------------
# Container

def write_container(
    layout: Layout,
    lumps: dict[int, dict],
    game_lumps: list[dict],
    revision: int = 0,
    *,
    align: int = 4,
    gl_dummy: bool = False,
    gl_pad: int = 0,
    lzma_opts: Optional[dict] = None,
) -> bytes:
    """Write a whole BSP.

    lumps: index -> {'data': bytes, 'version': int, 'lzma': bool, 'lzma_opts': {lc, lp, pb, dict_size} (optional)};
    missing slots are empty, version 0.
    game_lumps: [{'id': 4 bytes, 'flags': int (bit 0 is set from 'lzma'), 'version': int, 'data': bytes,
    'lzma': bool}].  A compressed game lump is always followed by one NUL byte (the reader derives its size from the
    next offset minus one) and needs a successor entry, so a dummy terminator is added when the last one is
    compressed; `gl_dummy` adds it anyway.  `gl_pad` extra NUL bytes follow every *uncompressed* game lump.
    The slot GAME_LUMP in `lumps` is ignored apart from nothing - it is always version 0 and uncompressed.
    """
    lzma_opts = lzma_opts or {}
    out = bytearray()
    out += struct.pack('<4si', layout.magic, layout.version)
    table_at = len(out)
    out += bytes(16 * 64)
    out += struct.pack('<i', revision)
    entries: list[tuple[int, int, int, int]] = [(0, 0, 0, 0)] * 64

    def pad() -> None:
        while align > 1 and len(out) % align:
            out.append(0)

    order = [i for i in range(64) if i != PAKFILE] + [PAKFILE]
    for idx in order:
        spec = lumps.get(idx, {})
        version = spec.get('version', 0)
        if idx == GAME_LUMP:
            pad()
            start = len(out)
            need_dummy = gl_dummy or bool(game_lumps and game_lumps[-1].get('lzma'))
            count = len(game_lumps) + (1 if need_dummy else 0)
            out += struct.pack('<i', count)
            dir_at = len(out)
            out += bytes(16 * count)
            dirent = []
            for k, gl in enumerate(game_lumps):
                data = gl['data']
                flags = gl.get('flags', 0) & 0xFFFE
                if gl.get('lzma'):
                    flags |= 1
                    payload = source_lzma_pack(data, **(gl.get('lzma_opts') or lzma_opts))
                else:
                    payload = data
                off = len(out)
                out += payload
                last = k == len(game_lumps) - 1
                if gl.get('lzma'):
                    if not last:
                        out.append(0)
                elif not last or need_dummy:
                    out += bytes(gl_pad)
                dirent.append((gl['id'][::-1], flags, gl.get('version', 0), off, len(data)))
            if need_dummy:
                dirent.append((b'\0\0\0\0', 0, 0, len(out), 0))
            for k, ent in enumerate(dirent):
                struct.pack_into('<4sHHii', out, dir_at + 16 * k, *ent)
            entries[idx] = (start, len(out) - start, 0, 0)
            continue
        data = spec.get('data', b'')
        if spec.get('lzma') and data and idx != PAKFILE:
            payload = source_lzma_pack(data, **(spec.get('lzma_opts') or lzma_opts))
            fourcc = len(data)
        else:
            payload = data
            fourcc = 0
        pad()
        entries[idx] = (len(out), len(payload), version, fourcc)
        out += payload
    for idx, (off, length, version, fourcc) in enumerate(entries):
        if layout.l4d2:
            struct.pack_into('<4i', out, table_at + 16 * idx, version, off, length, fourcc)
        else:
            struct.pack_into('<4i', out, table_at + 16 * idx, off, length, version, fourcc)
    return bytes(out)


def read_container(blob: bytes, l4d2: bool) -> dict:
    """Independent reader: header, lump table (decompressed data), game-lump directory (decompressed data)."""
    magic, version = struct.unpack_from('<4si', blob, 0)
    lumps = []
    for idx in range(64):
        a, b, c, d = struct.unpack_from('<4i', blob, 8 + 16 * idx)
        if l4d2:
            ver, off, length, fourcc = a, b, c, d
        else:
            off, length, ver, fourcc = a, b, c, d
        raw = blob[off:off + length]
        if len(raw) != length:
            raise ValueError(f'lump {LUMP_NAMES[idx]} runs past the end of the file')
        if fourcc > 0:
            data = source_lzma_unpack(raw)
            if len(data) != fourcc:
                raise ValueError(f'lump {LUMP_NAMES[idx]}: fourCC size {fourcc} != LZMA actual size {len(data)}')
        else:
            data = raw
        lumps.append({'data': data, 'version': ver, 'compressed': fourcc > 0, 'offset': off, 'length': length})
    (revision,) = struct.unpack_from('<i', blob, 8 + 16 * 64)
    game = []
    gl = lumps[GAME_LUMP]
    if gl['length']:
        base = gl['offset']
        (count,) = struct.unpack_from('<i', blob, base)
        ents = [struct.unpack_from('<4sHHii', blob, base + 4 + 16 * k) for k in range(count)]
        for gid, flags, ver, off, size in ents:
            if gid == b'\0\0\0\0':
                continue
            if flags & 1:
                data = source_lzma_unpack(blob[off:])
                if len(data) != size:
                    raise ValueError(f'game lump {gid[::-1]!r}: directory size {size} != LZMA size {len(data)}')
            else:
                data = blob[off:off + size]
                if len(data) != size:
                    raise ValueError(f'game lump {gid[::-1]!r} runs past the end of the file')
            game.append({'id': gid[::-1], 'flags': flags, 'version': ver, 'data': data})
    return {'magic': magic, 'version': version, 'revision': revision, 'lumps': lumps, 'game_lumps': game}


# ----------------------------------------------------------------------------------------------------------------
# Visibility run-length coding (zero byte followed by a repeat count 1..255).

def rle_encode(row: bytes) -> bytes:
    out = bytearray()
    i = 0
    n = len(row)
    while i < n:
        z = row.find(0, i)
        if z < 0:
            out += row[i:]
            break
        out += row[i:z]
        j = z
        while j < n and row[j] == 0:
            j += 1
        run = j - z
        while run > 255:
            out += b'\x00\xff'
            run -= 255
        out.append(0)
        out.append(run)
        i = j
    return bytes(out)


# ----------------------------------------------------------------------------------------------------------------
# World descriptors

EMPTY_ZIP = b'PK\x05\x06' + bytes(18)


def skeleton(layout: str = 'v20') -> dict:
    """The minimal consistent tree: 1 plane, 1 vertex (origin), dummy edge, 1 texture/texdata/texinfo, 1 node,
    1 leaf (+ min-dist entry), 1 model, PHYSCOLLIDE sentinel, worldspawn, empty sprp/dprp, empty zip."""
    fam = LAYOUTS[layout].fam
    return {
        'layout': layout,
        'revision': 1,
        'ents': [{'kv': [['classname', 'worldspawn'], ['mapversion', '1']], 'outs': []}],
        'out_sep': 'esc',
        'planes': [[0.0, 0.0, 1.0, 0.0, 2]],
        'verts': [[0.0, 0.0, 0.0]],
        'edges': [[0, 0]],
        'surfedges': [],
        'texstr': ['TOOLS/TOOLSNODRAW'],
        'texdata': [[0.5, 0.5, 0.5, 0, 64, 64]],
        'texinfo': [[[1.0, 0.0, 0.0, 0.0, 0.0, -1.0, 0.0, 0.0, 0.0625, 0.0, 0.0, 0.0, 0.0, -0.0625, 0.0, 0.0], 0, 0]],
        'prims': [],
        'ofaces': [], 'faces': [], 'hdrfaces': [], 'faceids': [],
        'brushes': [],
        'leafs': [{
            'contents': 0, 'cluster': 0, 'area': 0, 'flags': 0, 'mins': [0, 0, 0], 'maxs': [64, 64, 64],
            'faces': [], 'brushes': [], 'water': -1, 'ambient': '00' * 24, 'mindist': 65535,
        }],
        'nodes': [{'plane': 0, 'ch': [-1, -1], 'mins': [0, 0, 0], 'maxs': [64, 64, 64], 'ff': 0, 'nf': 0, 'area': 0}],
        'models': [{'mins': [0.0, 0.0, 0.0], 'maxs': [64.0, 64.0, 64.0], 'origin': [0.0, 0.0, 0.0],
                    'head': 0, 'ff': 0, 'nf': 0}],
        'phys': [],
        'water': [],
        'vis': None,
        'cubemaps': [],
        'overlays': [], 'overlay_aux': True,
        'sprp': {'ver': 'V6' if fam != 'chaos' else 'V_CHAOS_V12', 'props': [], 'flags': 0},
        'dprp': {'ver': 4, 'props': [], 'flags': 0},
        'extra_gl': [],
        'pak': [],
        'opaque': {},
        'lump_ver': {},
        'lzma': [], 'gl_lzma': [], 'gl_dummy': False, 'gl_pad': 0,
    }


def raw_skeleton(layout: str = 'v20') -> dict:
    """The skeleton in the *raw* form accepted by resolve_world() (what world_strategy generates)."""
    w = skeleton(layout)
    w.update({'verts': [], 'zero_at': 0, 'edges': [], 'hdr': False, 'faceids_mode': 'full', 'model_refs': []})
    for k in ('hdrfaces', 'faceids'):
        del w[k]
    return w


def _f32(x: float) -> float:
    return struct.unpack('<f', struct.pack('<f', x))[0]


def _slice(first: int, count: int, n: int) -> tuple[int, int]:
    """Turn two arbitrary non-negative ints into a valid (first, count) window of a table of n items."""
    if n == 0:
        return 0, 0
    first %= n + 1
    count = min(count, n - first)
    return first, count


def resolve_world(raw: dict) -> dict:
    """Make a generated world self-consistent (every index taken modulo the size of the table it points into, tables
    that must not contain unreferenced entries are pruned).  The result is again a JSON-able world descriptor."""
    w = dict(raw)
    lay = LAYOUTS[w['layout']]
    fam = lay.fam
    vit = fam == 'vitamin'
    # --- vertexes: the origin must be present (the surfedge writer looks for it / appends it).
    verts = [list(v) for v in w['verts']]
    zpos = w.get('zero_at', 0) % (len(verts) + 1)
    verts.insert(zpos, [0.0, 0.0, 0.0])
    w['verts'] = verts
    nv = len(verts)
    # --- edges: entry 0 is the unusable dummy; every other edge is referenced by at least one surfedge, so the
    # surfedge list is edges 1..n in order followed by the generated references.
    edges = [[zpos, zpos]] + [[a % nv, b % nv] for a, b in w['edges']]
    ne = len(edges)
    se = []
    messy = bool(w.get('messy'))     # tables not in the order a rebuild produces: unused records, out-of-first-use order
    if ne > 1:
        se = [] if messy else [k for k in range(1, ne)]
        for v in w['surfedges']:
            k = 1 + abs(v) % (ne - 1)
            se.append(-k if v < 0 else k)
    w['edges'], w['surfedges'] = edges, se
    nse = len(se)
    # --- planes
    planes = [list(p) for p in w['planes']] or [[0.0, 0.0, 1.0, 0.0, 2]]
    w['planes'] = planes
    npl = len(planes)
    # --- textures: every texdata is referenced by a texinfo, texdata string index valid
    texstr = list(w['texstr']) or ['A']
    texdata_in = [list(t) for t in w['texdata']] or [[0.5, 0.5, 0.5, 0, 16, 16]]
    texinfo = []
    used: dict[int, int] = {}
    texdata = []
    if messy:       # keep every texdata record where it is (unreferenced ones included)
        for k, t in enumerate(texdata_in):
            used[k] = k
            t = list(t)
            t[3] %= len(texstr)
            texdata.append(t)
    for fl, flags, td in (w['texinfo'] or [[[0.0] * 16, 0, 0]]):
        td %= len(texdata_in)
        if td not in used:
            used[td] = len(texdata)
            t = list(texdata_in[td])
            t[3] %= len(texstr)
            texdata.append(t)
        texinfo.append([list(fl), flags, used[td]])
    w['texstr'], w['texdata'], w['texinfo'] = texstr, texdata, texinfo
    nti = len(texinfo)
    # --- primitives (none in VitaminSource files)
    prims = [] if vit else [[t, list(ix), [list(v) for v in vs]] for t, ix, vs in w['prims']]
    w['prims'] = prims
    npr = len(prims)

    def fix_face(f: dict, norig: Optional[int]) -> dict:
        f = dict(f)
        f['plane'] %= npl
        f['fe'], f['ne'] = _slice(f['fe'], f['ne'], nse)
        f['ti'] %= nti
        f['fp'], f['np'] = _slice(f['fp'], f['np'], npr)
        f['orig'] = -1 if norig is None else f['orig'] % norig
        return f

    ofaces = [] if vit else [fix_face(f, None) for f in w['ofaces']]
    faces = [fix_face(f, None if vit else len(ofaces)) for f in w['faces']] if (ofaces or vit) else []
    if vit:
        faces = [dict(f, orig=-1, np=0, fp=0) for f in faces]
    hdr = []
    if w.get('hdr') and not vit:
        hdr = [dict(f, lofs=f['lofs'] ^ 0x40) for f in faces]
    w['ofaces'], w['faces'], w['hdrfaces'] = ofaces, faces, hdr
    nf = len(faces)
    ids_mode = w.get('faceids_mode', 'full')
    idmax = 0xFFFFFFFF if fam == 'chaos' else 0xFFFF
    if ids_mode == 'full' and nf:
        w['faceids'] = [f['hid'] & idmax for f in faces]
    elif ids_mode == 'garbage' and not nf:
        w['faceids'] = [v & idmax for v in w.get('faceids_raw', [])]
    else:
        w['faceids'] = []
    # --- brushes
    brushes = []
    for contents, sides in w['brushes']:
        brushes.append([contents, [[s[0] % npl, s[1] % nti, s[2], s[3], s[4]] for s in sides]])
    w['brushes'] = brushes
    nb = len(brushes)
    # --- leafs
    leafs = []
    nwater = len(w['water'])
    for lf in w['leafs'] or [skeleton(w['layout'])['leafs'][0]]:
        lf = dict(lf)
        lf['faces'] = [v % nf for v in lf['faces']] if nf else []
        lf['brushes'] = [v % nb for v in lf['brushes']] if nb else []
        lf['water'] = -1 if not nwater or lf['water'] < 0 else lf['water'] % nwater
        if vit:
            lf['mins'] = [abs(v) for v in lf['mins']]
            lf['maxs'] = [abs(v) for v in lf['maxs']]
        leafs.append(lf)
    w['leafs'] = leafs
    nl = len(leafs)
    w['water'] = [[a, b, ti % nti] for a, b, ti in w['water']]
    # --- nodes: child >= 0 -> node, child < 0 -> leaf
    nodes_in = w['nodes'] or skeleton(w['layout'])['nodes']
    nn = len(nodes_in)
    nodes = []
    for nd in nodes_in:
        nd = dict(nd)
        nd['plane'] %= npl
        ch = []
        for c in nd['ch']:
            ch.append(c % nn if c >= 0 else -1 - ((-1 - c) % nl))
        nd['ch'] = ch
        nd['ff'], nd['nf'] = _slice(nd['ff'], nd['nf'], nf)
        nodes.append(nd)
    w['nodes'] = nodes
    # --- models + the entities that own them (model 0 = worldspawn; every other model gets >= 1 entity)
    models = []
    for md in w['models'] or skeleton(w['layout'])['models']:
        md = dict(md)
        md['head'] %= nn
        md['ff'], md['nf'] = _slice(md['ff'], md['nf'], nf)
        models.append(md)
    w['models'] = models
    nm = len(models)
    ents = [{'kv': [list(p) for p in e['kv']], 'outs': [list(o) for o in e['outs']]} for e in w['ents']]
    if not ents:
        ents = [{'kv': [], 'outs': []}]
    ents[0]['kv'] = [['classname', 'worldspawn']] + [p for p in ents[0]['kv'] if p[0].casefold() != 'classname']
    for e in ents[1:]:
        if not any(p[0].casefold() == 'classname' for p in e['kv']):
            e['kv'].insert(0, ['classname', 'info_null'])
        e['kv'] = [p for p in e['kv'] if p[0].casefold() != 'model']
    refs = list(w.get('model_refs', []))
    for k in (range(nm - 1, 0, -1) if messy else range(1, nm)):     # messy: entities name the models in descending order
        ents.append({'kv': [['classname', 'func_brush'], ['model', f'*{k}']], 'outs': []})
    for r in refs:
        if nm > 1:
            ents.append({'kv': [['classname', 'func_detail_ref'], ['model', f'*{1 + r % (nm - 1)}']], 'outs': []})
    w['ents'] = ents
    seen = set()
    phys = []
    for ph in w['phys']:
        m = ph['model'] % nm
        if m in seen:
            continue
        seen.add(m)
        phys.append(dict(ph, model=m))
    w['phys'] = phys
    # --- visibility
    vis = w['vis']
    if vis is not None:
        n = vis['n']
        rowlen = (n + 7) // 8

        def fit(hx: str) -> str:
            b = bytes.fromhex(hx)
            b = (b + bytes(rowlen))[:rowlen]
            return b.hex()
        pvs = [fit(h) for h in (vis['pvs'] + [''] * n)[:n]]
        pas = [fit(h) for h in (vis['pas'] + [''] * n)[:n]]
        w['vis'] = {'n': n, 'pvs': pvs, 'pas': pas}
    # --- overlays
    ovs = []
    for ov in w['overlays']:
        ov = dict(ov)
        ov['ti'] %= nti
        ovs.append(ov)
    w['overlays'] = ovs
    # --- game lumps
    sp = dict(w['sprp'])
    if sp['ver'] not in sprp_versions_for(w['layout']):
        sp['ver'] = 'V10'
    props = []
    fmask = sprp_flag_mask(sp['ver'])
    for p in sp['props']:
        p = dict(p)
        p['leaves'] = sorted({v % nl for v in p['leaves']})
        p['flags'] &= fmask
        props.append(p)
    sp['props'] = props
    w['sprp'] = sp
    return w


def _pack_face(fam: str, fmt: str, f: dict) -> bytes:
    lm = f['lm']
    if fam == 'vitamin':
        return struct.pack(fmt, f['plane'], f['ti'], f['disp'], f['fe'], f['ne'], lm[0], lm[1], lm[2], lm[3],
                           f['vflags'] & 0xFF)
    np_ = f['np'] | (0x8000 if f['nodyn'] else 0)
    return struct.pack(
        fmt, f['plane'], f['side'] & 1, f['onnode'] & 1, f['fe'], f['ne'], f['ti'], f['disp'], f['fog'],
        bytes.fromhex(f['styles']), f['lofs'], f['area'], lm[0], lm[1], lm[2], lm[3], f['orig'], np_, f['fp'],
        f['smooth'],
    )


def encode_entities(ents: list[dict], sep: str = 'esc') -> bytes:
    """Entity lump text.  Values are written verbatim between quotes (the generator keeps them free of quotes and
    backslashes), connections use ESC or comma."""
    s = '\x1b' if sep == 'esc' else ','
    out = []
    for e in ents:
        out.append('{\n')
        for k, v in e['kv']:
            out.append(f'"{k}" "{v}"\n')
        for name, targ, inp, par, delay, times in e['outs']:
            out.append(f'"{name}" "{targ}{s}{inp}{s}{par}{s}{delay}{s}{times}"\n')
        out.append('}\n')
    return ''.join(out).encode('ascii', 'surrogateescape') + b'\0'


def encode_sprp(sp: dict, propleaf: str) -> bytes:
    """Static prop game lump in any of the versions of SPRP_VERSIONS."""
    ver = sp['ver']
    vnum, size = SPRP_VERSIONS[ver]
    lightmap = ver.startswith('V_LIGHTMAP')
    sdk2013 = ver.startswith('V_LIGHTMAP_v')
    eff = 7 if lightmap else vnum
    names: list[str] = []
    leaves: list[int] = []
    recs = []
    for p in sp['props']:
        if p['model'] not in names:
            names.append(p['model'])
        first = len(leaves)
        leaves.extend(p['leaves'])
        flags = p['flags']
        b = bytearray()
        b += struct.pack('<3f3fH', *p['origin'], *p['angles'], names.index(p['model']))
        b += struct.pack('<HHBBiff3f', first, len(p['leaves']), p['solidity'], 0 if lightmap else flags & 0xFF,
                         p['skin'], p['min_fade'], p['max_fade'], *p['lighting'])
        if eff >= 5:
            b += struct.pack('<f', p['fade_scale'])
        if eff in (6, 7):
            b += struct.pack('<HH', p['min_dx'], p['max_dx'])
        if eff >= 8:
            b += struct.pack('<4B', p['min_cpu'], p['max_cpu'], p['min_gpu'], p['max_gpu'])
        if lightmap:
            b += struct.pack('<IHH', flags & 0xFFFFFFFF, p['lm_x'], p['lm_y'])
        if eff >= 7 and not sdk2013:
            b += struct.pack('<4B', *p['tint'], p['renderfx'])
        if eff >= 9 and not lightmap:
            b += struct.pack('<B3x', 1 if p['xbox'] else 0)
        if eff >= 10 or ver == 'V_LIGHTMAP_MESA':
            b += struct.pack('<I', (flags >> 8) & 0xFFFFFFFF)
        if ver == 'V_CHAOS_V13':
            b += struct.pack('<3f', *p['scale3'])
        elif eff >= 11:
            b += struct.pack('<f', p['scale3'][0])
        assert len(b) == size, (ver, len(b), size)
        recs.append(bytes(b))
    out = bytearray(struct.pack('<i', len(names)))
    for nm in names:
        raw = nm.encode('ascii', 'surrogateescape')
        assert len(raw) < 128
        out += raw.ljust(128, b'\0')
    out += struct.pack('<i', len(leaves))
    for lf in leaves:
        out += struct.pack(propleaf, lf)
    out += struct.pack('<i', len(recs))
    for r in recs:
        out += r
    return bytes(out)


def encode_dprp(dp: dict) -> bytes:
    names: list[str] = []
    sprites: list[tuple] = []
    recs = []
    for p in dp['props']:
        kind = p['type']
        if kind == 0:
            if p['model'] not in names:
                names.append(p['model'])
            ref = names.index(p['model'])
        else:
            spr = tuple(p['sprite'])
            if spr not in sprites:
                sprites.append(spr)
            ref = sprites.index(spr)
        recs.append(struct.pack(
            '<3f3fHH4BIBBBBB3xB3xf', *p['origin'], *p['angles'], ref, p['leaf'], *p['lighting'], p['styles'],
            p['style_count'], p['sway'], p['shape_angle'], p['shape_size'], p['orient'], kind, p['scale'],
        ))
    out = bytearray(struct.pack('<i', len(names)))
    for nm in names:
        out += nm.encode('ascii', 'surrogateescape').ljust(128, b'\0')
    out += struct.pack('<i', len(sprites))
    for spr in sprites:
        out += struct.pack('<8f', *spr)
    out += struct.pack('<i', len(recs))
    out += b''.join(recs)
    return bytes(out)


def make_zip(files: list) -> bytes:
    if not files:
        return EMPTY_ZIP
    buf = io.BytesIO()
    with zipfile.ZipFile(buf, 'w', zipfile.ZIP_STORED) as zf:
        for name, hx in files:
            zi = zipfile.ZipInfo(name, (2004, 11, 16, 0, 0, 0))
            zf.writestr(zi, bytes.fromhex(hx))
    return buf.getvalue()


def encode_world(w: dict) -> tuple[dict[int, dict], list[dict]]:
    """World descriptor (already consistent, see resolve_world/skeleton) -> lump dict + game lump list."""
    lay = LAYOUTS[w['layout']]
    F = FAM[lay.fam]
    fam = lay.fam
    vit = fam == 'vitamin'
    d: dict[int, bytes] = {}
    d[L['ENTITIES']] = encode_entities(w['ents'], w.get('out_sep', 'esc'))
    d[L['PLANES']] = b''.join(struct.pack('<4fi', *p) for p in w['planes'])
    d[L['VERTEXES']] = b''.join(struct.pack('<3f', *v) for v in w['verts'])
    d[L['EDGES']] = b''.join(struct.pack(F['edge'], a, b) for a, b in w['edges'])
    d[L['SURFEDGES']] = b''.join(struct.pack('<i', v) for v in w['surfedges'])
    # texture names
    sdata = bytearray()
    stable = bytearray()
    for nm in w['texstr']:
        stable += struct.pack('<i', len(sdata))
        sdata += nm.encode('ascii', 'surrogateescape') + b'\0'
    d[L['TEXDATA_STRING_DATA']] = bytes(sdata)
    d[L['TEXDATA_STRING_TABLE']] = bytes(stable)
    if vit:
        d[L['TEXDATA']] = b''.join(struct.pack('<3f3i', *t) for t in w['texdata'])
    else:
        d[L['TEXDATA']] = b''.join(struct.pack('<3f5i', *t, t[4], t[5]) for t in w['texdata'])
    d[L['TEXINFO']] = b''.join(struct.pack('<16fIi', *fl, flags, td) for fl, flags, td in w['texinfo'])
    # primitives
    pv = bytearray()
    pi_ = []
    pr = bytearray()
    nverts = 0
    for typ, idx, vs in w['prims']:
        pr += struct.pack(F['prim'], typ, len(pi_), len(idx), nverts, len(vs))
        pi_.extend(idx)
        for v in vs:
            pv += struct.pack('<3f', *v)
        nverts += len(vs)
    d[L['PRIMITIVES']] = bytes(pr)
    d[L['PRIMVERTS']] = bytes(pv)
    d[L['PRIMINDICES']] = b''.join(struct.pack(F['primidx'], v) for v in pi_)
    d[L['ORIGINALFACES']] = b''.join(_pack_face(fam, F['face'], f) for f in w['ofaces'])
    d[L['FACES']] = b''.join(_pack_face(fam, F['face'], f) for f in w['faces'])
    d[L['FACES_HDR']] = b''.join(_pack_face(fam, F['face'], f) for f in w['hdrfaces'])
    d[L['FACEIDS']] = b''.join(struct.pack(F['faceid'], v) for v in w['faceids'])
    # brushes
    sides = bytearray()
    br = bytearray()
    nsides = 0
    for contents, ss in w['brushes']:
        br += struct.pack('<iiI', nsides, len(ss), contents)
        for plane, ti, disp, bevel, extra in ss:
            if vit:
                sides += struct.pack(F['side'], plane, ti, disp, bevel & 0xFF, extra & 0xFF)
            else:
                sides += struct.pack(F['side'], plane, ti, disp, bevel)
        nsides += len(ss)
    d[L['BRUSHES']] = bytes(br)
    d[L['BRUSHSIDES']] = bytes(sides)
    # leafs
    lf_b = bytearray()
    lfaces: list[int] = []
    lbrushes: list[int] = []
    mind = bytearray()
    for lf in w['leafs']:
        ff, fb = len(lfaces), len(lbrushes)
        lfaces.extend(lf['faces'])
        lbrushes.extend(lf['brushes'])
        mind += struct.pack('<H', lf['mindist'])
        bounds = [*lf['mins'], *lf['maxs']]
        if vit:
            lf_b += struct.pack(F['leaf'], lf['contents'], lf['cluster'], lf['area'], *bounds, ff, len(lf['faces']),
                                fb, len(lf['brushes']), lf['water'], lf['flags'])
        else:
            af = (lf['area'] << F['area_off']) | lf['flags']
            vals = [lf['contents'], lf['cluster'], af, *bounds, ff, len(lf['faces']), fb, len(lf['brushes']),
                    lf['water']]
            if F['ambient']:
                vals.append(bytes.fromhex(lf['ambient']))
            lf_b += struct.pack(F['leaf'], *vals)
    d[L['LEAFS']] = bytes(lf_b)
    d[L['LEAFFACES']] = b''.join(struct.pack(F['leafface'], v) for v in lfaces)
    d[L['LEAFBRUSHES']] = b''.join(struct.pack(F['leafbrush'], v) for v in lbrushes)
    d[L['LEAFMINDISTTOWATER']] = bytes(mind)
    d[L['NODES']] = b''.join(
        struct.pack(F['node'], nd['plane'], nd['ch'][0], nd['ch'][1], *nd['mins'], *nd['maxs'], nd['ff'], nd['nf'],
                    nd['area'])
        for nd in w['nodes'])
    d[L['MODELS']] = b''.join(
        struct.pack('<9f3i', *md['mins'], *md['maxs'], *md['origin'], md['head'], md['ff'], md['nf'])
        for md in w['models'])
    ph = bytearray()
    for p in w['phys']:
        solids = [bytes.fromhex(h) for h in p['solids']]
        kv = p['kv'].encode('ascii') + b'\0'
        ph += struct.pack('<4i', p['model'], sum(len(s) + 4 for s in solids), len(kv), len(solids))
        for s in solids:
            ph += struct.pack('<i', len(s)) + s
        ph += kv
    ph += struct.pack('<4i', -1, -1, 0, 0)
    d[L['PHYSCOLLIDE']] = bytes(ph)
    d[L['LEAFWATERDATA']] = b''.join(struct.pack(F['water'], a, b, ti) for a, b, ti in w['water'])
    vis = w['vis']
    if vis is None:
        d[L['VISIBILITY']] = b''
    else:
        n = vis['n']
        body = bytearray()
        offs = []
        base = 4 + 8 * n
        for a, b in zip(vis['pvs'], vis['pas']):
            o1 = base + len(body)
            body += rle_encode(bytes.fromhex(a))
            o2 = base + len(body)
            body += rle_encode(bytes.fromhex(b))
            offs.append((o1, o2))
        d[L['VISIBILITY']] = struct.pack('<i', n) + b''.join(struct.pack('<ii', *o) for o in offs) + bytes(body)
    d[L['CUBEMAPS']] = b''.join(struct.pack('<4i', *c) for c in w['cubemaps'])
    ov_b = bytearray()
    fades = bytearray()
    levels = bytearray()
    for ov in w['overlays']:
        fc = ov['faces']
        ov_b += struct.pack('<ihH', ov['id'], ov['ti'], (ov['ro'] << 14) | len(fc))
        ov_b += struct.pack('<64i', *(fc + [0] * (64 - len(fc))))
        ov_b += struct.pack('<4f', *ov['uv'])
        for pt in ov['pts']:
            ov_b += struct.pack('<3f', *pt)
        ov_b += struct.pack('<3f', *ov['origin']) + struct.pack('<3f', *ov['normal'])
        fades += struct.pack('<ff', *ov['fade'])
        levels += struct.pack('<4B', *ov['lvl'])
    d[L['OVERLAYS']] = bytes(ov_b)
    if w.get('overlay_aux', True):
        d[L['OVERLAY_FADES']] = bytes(fades)
        d[L['OVERLAY_SYSTEM_LEVELS']] = bytes(levels)
    d[L['PAKFILE']] = make_zip(w['pak'])
    for name, hx in w['opaque'].items():
        idx = LUMP_INDEX[name]
        assert idx in OPAQUE_LUMPS, name
        d[idx] = bytes.fromhex(hx)
    lumps: dict[int, dict] = {}
    lz = set(LUMP_NAMES) if w.get('lzma_all') else set(w['lzma'])
    opt_list = [lzma_opts_of(o) for o in w.get('lzma_opts', [])] or [None]
    for idx, data in d.items():
        nm = LUMP_NAMES[idx]
        lumps[idx] = {'data': data, 'version': w['lump_ver'].get(nm, 0), 'lzma': nm in lz and idx != PAKFILE,
                      'lzma_opts': opt_list[idx % len(opt_list)]}
    for nm, ver in w['lump_ver'].items():
        idx = LUMP_INDEX[nm]
        if idx not in lumps and idx != GAME_LUMP:
            lumps[idx] = {'data': b'', 'version': ver, 'lzma': False}
    if lay.l4d2:
        lumps[L['ENTITIES']]['version'] = 0     # the reader recognises the L4D2 order by a zero here
    glz = set(w['gl_lzma'])
    sp, dp = w['sprp'], w['dprp']
    game = [
        {'id': b'sprp', 'flags': sp.get('flags', 0), 'version': SPRP_VERSIONS[sp['ver']][0],
         'data': encode_sprp(sp, F['propleaf']), 'lzma': 'sprp' in glz},
        {'id': b'dprp', 'flags': dp.get('flags', 0), 'version': dp.get('ver', 4), 'data': encode_dprp(dp),
         'lzma': 'dprp' in glz},
    ]
    for k, eg in enumerate(w['extra_gl']):
        entry = {'id': eg['id'].encode('ascii'), 'flags': eg['flags'], 'version': eg['ver'],
                 'data': bytes.fromhex(eg['data']), 'lzma': bool(eg['lzma'])}
        game.insert(eg['pos'] % (len(game) + 1), entry)
    for k, g in enumerate(game):
        g['lzma_opts'] = opt_list[(k + 1) % len(opt_list)]
    return lumps, game


LZMA_DEFAULT = [3, 0, 2, 24]        # lc, lp, pb, log2(dictionary size): what Source and srctools write


def lzma_opts_of(o) -> dict:
    """[lc, lp, pb, log2 dict] (descriptor form) -> keyword arguments of source_lzma_pack (lc + lp <= 4 enforced)."""
    lc, lp, pb, dl = o
    lp = min(lp, 4 - lc)
    return {'lc': lc, 'lp': lp, 'pb': pb, 'dict_size': 1 << dl}


def lzma_is_default(opts: Optional[dict]) -> bool:
    return opts is None or (opts['lc'], opts['lp'], opts['pb']) == (3, 0, 2)


def build_bsp(w: dict, encoded: Optional[tuple] = None) -> bytes:
    lumps, game = encoded or encode_world(w)
    return write_container(LAYOUTS[w['layout']], lumps, game, w['revision'], gl_dummy=w['gl_dummy'],
                           gl_pad=w['gl_pad'])


# ----------------------------------------------------------------------------------------------------------------
# Hypothesis strategies for raw worlds

def biased_int(lo: int, hi: int, specials: list):
    """One Hypothesis draw: 1 in 4 a boundary value from `specials`, else uniform in [lo, hi] (shrinks to specials[0])."""
    from hypothesis import strategies as st
    span = hi - lo + 1
    ns = len(specials)
    return st.integers(0, 4 * max(span, ns) - 1).map(
        lambda v: specials[(v >> 2) % ns] if (v & 3) == 0 else lo + (v >> 2) % span)


F32_MAX = 3.4028234663852886e38
F32_TINY = 1.401298464324817e-45


def f32_strategy(signed_zero: bool = True):
    """float32-representable finite floats: mostly cheap dyadic rationals, some arbitrary float32, some extremes."""
    from hypothesis import strategies as st
    specials = [0.0, 1.0, -1.0, 0.5, 16384.0, -99999.0, F32_MAX, -F32_MAX, F32_TINY, 1e-10 * 0 + 1.1754943508222875e-38]
    if signed_zero:
        specials.append(-0.0)
    return st.one_of(
        st.integers(-(1 << 22), 1 << 22).map(lambda i: i / 64.0),
        st.integers(-(1 << 22), 1 << 22).map(lambda i: i / 64.0),
        st.floats(-1e9, 1e9, allow_nan=False, allow_infinity=False, width=32).filter(lambda x: signed_zero or x != 0.0 or str(x) == '0.0'),
        st.sampled_from(specials),
    )


def world_strategy(tier: str, layouts: Optional[list[str]] = None, rich: bool = True):
    from hypothesis import strategies as st
    from vlib import gens

    big = tier != 'quick'
    mx = 6 if big else 4
    biased = biased_int

    u16 = biased(0, 0xFFFF, [0, 1, 2, 255, 256, 0x7FFF, 0xFFFF])
    i16 = biased(-0x8000, 0x7FFF, [0, 1, -1, 0x7FFF, -0x8000])
    i32 = biased(-0x80000000, 0x7FFFFFFF, [0, 1, -1, 0x7FFFFFFF, -0x80000000])
    u32 = biased(0, 0xFFFFFFFF, [0, 1, 0xFFFFFFFF, 0x80000000])
    u8 = st.integers(0, 255)
    small = st.integers(0, 40)
    # dyadic rationals: exactly representable in float32, one cheap draw each
    f = st.integers(-(1 << 22), 1 << 22).map(lambda i: i / 64.0)
    ibound = st.integers(-16384, 16384)
    vec = st.tuples(f, f, f).map(list)
    ivec = st.tuples(ibound, ibound, ibound).map(list)
    flags31 = biased(0, 0xFFFFFFFF, [0, 1, 0x4000, 0x40000000, 0x7FFFFFFF, 0x80000000, 0xFFFFFFFF])  # 32-bit flag words
    name = st.text('ABCXYZ_/0189', min_size=1, max_size=12)
    longname = st.one_of(name, st.integers(100, 127).map(lambda n: ('LONG/' * 30)[:n]))
    mdl = st.one_of(
        st.text('abcxyz_/0189.', min_size=1, max_size=14).map(lambda s: 'models/' + s + '.mdl'),
        st.integers(110, 127).map(lambda n: ('models/' + 'x' * 140)[:n]),
        st.sampled_from(['models/Props/Grass01.mdl', 'models/props/grass01.mdl', 'MODELS/PROPS/GRASS01.MDL']),
    )
    ident = st.text('abcdefgXYZ_0123', min_size=1, max_size=8)
    # output delays: m x 10^e with <= 5 significant digits over all magnitudes (the writer uses '%g')
    delay_text = st.one_of(
        st.sampled_from(['0', '0.5', '1', '2.25', '10', '0.01', '1e-07', '2.5e-05', '123450000', '0.00012345']),
        st.tuples(st.integers(1, 99999), st.integers(-9, 9)).map(lambda t: f'{t[0]}e{t[1]}'),
    )
    value = st.text('abcXYZ 0123.,;:-_+*#@!$%&/()[]=<>|~^\udc80\udcff', max_size=12).filter(
        lambda s: s.count(',') != 4)
    out = st.tuples(ident, ident, ident, st.text('abc 012._-', max_size=6),
                    delay_text, st.sampled_from([-1, 1, 3])).map(list)
    ent = st.fixed_dictionaries({
        'kv': st.lists(st.tuples(ident, value).map(list), max_size=4, unique_by=lambda p: p[0].casefold()).map(
            lambda kv: [p for p in kv if p[0].casefold() not in ('nodeid', 'model')]),
        'outs': st.lists(out, max_size=2),
    })
    plane = st.tuples(f, f, f, f, st.integers(0, 5)).map(list)
    texdata = st.tuples(f, f, f, small, i32, i32).map(list)
    texinfo = st.tuples(st.lists(f, min_size=16, max_size=16), flags31, small).map(list)
    prim = st.tuples(st.sampled_from([0, 1]), st.lists(u16, max_size=4), st.lists(vec, max_size=3)).map(list)
    face = st.fixed_dictionaries({
        'plane': small, 'side': st.integers(0, 1), 'onnode': st.integers(0, 1), 'fe': small, 'ne': st.integers(0, 5),
        'ti': small, 'disp': i16, 'fog': i16, 'styles': gens.hexbytes(4, 4), 'lofs': i32, 'area': f,
        'lm': st.lists(i32, min_size=4, max_size=4), 'orig': small, 'np': st.integers(0, 3), 'fp': small,
        'nodyn': st.booleans(), 'smooth': u32, 'hid': u16, 'vflags': u8,
    })
    side = st.tuples(small, small, i16, biased(0, 0xFFFF, [0, 1, 2, 3, 0xFFFF]), u8).map(list)
    brush = st.tuples(flags31, st.lists(side, max_size=4)).map(list)
    leaf = st.fixed_dictionaries({
        'contents': flags31, 'cluster': st.integers(-1, 40), 'area': biased(0, 255, [0, 1, 255]),
        'flags': st.integers(0, 127), 'mins': ivec, 'maxs': ivec, 'faces': st.lists(small, max_size=3),
        'brushes': st.lists(small, max_size=3), 'water': st.integers(-1, 5), 'ambient': gens.hexbytes(24, 24),
        'mindist': u16,
    })
    node = st.fixed_dictionaries({
        'plane': small, 'ch': st.tuples(st.integers(-8, 8), st.integers(-8, 8)).map(list), 'mins': ivec, 'maxs': ivec,
        'ff': small, 'nf': st.integers(0, 4), 'area': i16,
    })
    model = st.fixed_dictionaries({'mins': vec, 'maxs': vec, 'origin': vec, 'head': small, 'ff': small,
                                   'nf': st.integers(0, 4)})
    kvtext = st.sampled_from([
        '', 'solid\n{\n"index" "0"\n"mass" "1.5"\n}\n',
        'solid\n{\n"index" "0"\n"surfaceprop" "default"\n}\nsolid\n{\n"index" "1"\n}\n',
        'materialtable\n{\n"default" "1"\n}\n',
    ])
    phys = st.fixed_dictionaries({'model': small, 'solids': st.lists(gens.hexbytes(0, 12), max_size=3), 'kv': kvtext})
    water = st.tuples(f, f, small).map(list)

    def vis_rows(n):
        row = st.one_of(
            st.binary(max_size=(n + 7) // 8),
            st.builds(lambda a, z, b: a + bytes(z) + b, st.binary(max_size=3), st.sampled_from([1, 2, 254, 255, 256, 257, 510, 511, 600]), st.binary(max_size=3)),
        ).map(bytes.hex)
        return st.fixed_dictionaries({'n': st.just(n), 'pvs': st.lists(row, max_size=min(n, 4)),
                                      'pas': st.lists(row, max_size=min(n, 4))})
    vis = st.one_of(st.none(), st.sampled_from([0, 1, 7, 8, 9, 17, 40, 40, 64, 2100]).flatmap(vis_rows))
    cubemap = st.tuples(i32, i32, i32, st.integers(0, 13)).map(list)
    overlay = st.fixed_dictionaries({
        'id': i32, 'ti': small, 'faces': st.lists(i32, max_size=5) | st.lists(i32, min_size=64, max_size=64),
        'ro': st.integers(0, 3), 'uv': st.lists(f, min_size=4, max_size=4), 'pts': st.lists(vec, min_size=4, max_size=4),
        'origin': vec, 'normal': vec, 'fade': st.lists(f, min_size=2, max_size=2),
        'lvl': st.lists(st.integers(0, 254), min_size=4, max_size=4),
    })
    ang = st.integers(0, 359 * 64).map(lambda i: i / 64.0)
    prop = st.fixed_dictionaries({
        'model': mdl, 'origin': vec, 'angles': st.tuples(ang, ang, ang).map(list), 'leaves': st.lists(small, max_size=3),
        'solidity': u8, 'flags': biased(0, (1 << 40) - 1, [0, 1, 0xFF, 0x100, 0xFFFFFFFF, (1 << 40) - 1]), 'skin': i32,
        'min_fade': f, 'max_fade': f, 'lighting': vec, 'fade_scale': f, 'min_dx': u16, 'max_dx': u16,
        'min_cpu': u8, 'max_cpu': u8, 'min_gpu': u8, 'max_gpu': u8, 'tint': st.lists(u8, min_size=3, max_size=3),
        'renderfx': u8, 'xbox': st.booleans(), 'lm_x': u16, 'lm_y': u16, 'scale3': vec,
    })
    sprite = st.lists(f, min_size=8, max_size=8)
    dprop = st.fixed_dictionaries({
        'type': st.integers(0, 3), 'model': mdl, 'sprite': sprite, 'origin': vec, 'angles': st.tuples(ang, ang, ang).map(list),
        'leaf': u16, 'lighting': st.lists(u8, min_size=4, max_size=4), 'styles': u32, 'style_count': u8, 'sway': u8,
        'shape_angle': u8, 'shape_size': u8, 'orient': st.integers(0, 2), 'scale': f,
    })
    lay = st.sampled_from(layouts or MAIN_LAYOUTS)
    opaque_names = [LUMP_NAMES[i] for i in OPAQUE_LUMPS]
    all_names = [n for i, n in enumerate(LUMP_NAMES) if i not in (GAME_LUMP, PAKFILE)]
    extra_gl = st.fixed_dictionaries({
        'id': st.sampled_from(['dplh', 'dplt', 'prpd', 'xyzw']), 'flags': st.sampled_from([0, 2, 0x8000, 0xFFFE]),
        'ver': u16, 'data': gens.hexbytes(0, 20), 'lzma': st.booleans(), 'pos': st.integers(0, 3),
    })

    def lst(x, n=mx, **kw):
        return st.lists(x, max_size=n if rich else 0, **kw)

    return st.fixed_dictionaries({
        'layout': lay,
        'revision': i32,
        'ents': st.lists(ent, min_size=1, max_size=4),
        'out_sep': st.sampled_from(['esc', 'comma']),
        'planes': st.lists(plane, min_size=1, max_size=mx),
        'verts': lst(vec), 'zero_at': small,
        'edges': lst(st.tuples(small, small).map(list)),
        'surfedges': lst(st.integers(-40, 40), 8),
        'texstr': st.lists(longname, min_size=1, max_size=mx),
        'texdata': st.lists(texdata, min_size=1, max_size=mx),
        'texinfo': st.lists(texinfo, min_size=1, max_size=mx),
        'prims': lst(prim, 3),
        'ofaces': lst(face, 3), 'faces': lst(face), 'hdr': st.booleans(),
        'faceids_mode': st.sampled_from(['full', 'full', 'full', 'none']),
        'brushes': lst(brush),
        'leafs': st.lists(leaf, min_size=1, max_size=mx),
        'nodes': st.lists(node, min_size=1, max_size=mx),
        'models': st.lists(model, min_size=1, max_size=3), 'model_refs': st.lists(small, max_size=2),
        'phys': lst(phys, 3),
        'water': lst(water, 3),
        'vis': vis if rich else st.none(),
        'cubemaps': lst(cubemap, 3),
        'overlays': lst(overlay, 3), 'overlay_aux': st.booleans(),
        'sprp': st.fixed_dictionaries({'ver': st.sampled_from(sorted(SPRP_VERSIONS)), 'props': lst(prop, 3),
                                       'flags': st.sampled_from([0, 2, 0xFFFE])}),
        'dprp': st.fixed_dictionaries({'ver': st.sampled_from([4, 4, 0, 65535]), 'props': lst(dprop, 4),
                                       'flags': st.sampled_from([0, 2, 0x4000])}),
        'extra_gl': st.lists(extra_gl, max_size=2, unique_by=lambda e: e['id']),
        'pak': st.lists(st.tuples(st.text('abc/_.', min_size=1, max_size=8), gens.hexbytes(0, 30)).map(list),
                        max_size=2, unique_by=lambda p: p[0]),
        'opaque': st.dictionaries(st.sampled_from(opaque_names), gens.hexbytes(1, 24), max_size=5),
        'lump_ver': st.dictionaries(st.sampled_from(all_names), st.sampled_from([0, 1, 2, 0x7FFFFFFF, -1]), max_size=5),
        'lzma': st.one_of(st.just([]), st.lists(st.sampled_from(all_names), max_size=3, unique=True),
                          st.sampled_from([['TEXINFO', 'TEXDATA'], ['TEXINFO'], ['SURFEDGES', 'EDGES'], ['SURFEDGES'],
                                           ['ENTITIES', 'MODELS'], ['ENTITIES'], ['LEAFS', 'LEAFFACES', 'LEAFBRUSHES'],
                                           ['BRUSHES', 'BRUSHSIDES'], ['FACES', 'ORIGINALFACES', 'PLANES']])),
        'lzma_all': st.sampled_from([False] * 17 + [True]),
        'messy': st.booleans(),
        'gl_lzma': st.one_of(st.just([]), st.lists(st.sampled_from(['sprp', 'dprp']), max_size=2, unique=True)),
        'gl_dummy': st.booleans(),
        'gl_pad': st.sampled_from([0, 0, 1, 3]),
        # LZMA filter settings of the compressed lumps of the *input* (lump k uses entry k mod len)
        'lzma_opts': st.lists(st.one_of(
            st.just(LZMA_DEFAULT),
            st.tuples(st.integers(0, 4), st.integers(0, 4), st.integers(0, 4), st.integers(12, 20)).map(list),
            st.sampled_from([[0, 2, 0, 16], [4, 0, 4, 12], [0, 4, 0, 20], [3, 0, 2, 12]]),
        ), min_size=1, max_size=3),
    })


# ----------------------------------------------------------------------------------------------------------------
# Rooted-graph canonicaliser

_VALUE_CLASSES = {'Vec', 'FrozenVec', 'Angle', 'FrozenAngle'}


def _fhex(x: float) -> str:
    return struct.pack('>d', x).hex()


class _Canon:
    def __init__(self, drop, rename, by_value=frozenset()) -> None:
        self.ids: dict[int, int] = {}
        self.keep: list[Any] = []
        self.drop = drop
        self.rename = rename
        self.by_value = by_value

    def number(self, o: Any) -> tuple[bool, int]:
        k = id(o)
        if k in self.ids:
            return False, self.ids[k]
        n = self.ids[k] = len(self.ids)
        self.keep.append(o)
        return True, n

    def walk(self, o: Any) -> Any:
        import enum
        if o is None or isinstance(o, str):
            return o
        if isinstance(o, enum.Enum):
            return ['E', type(o).__name__, self.walk(o.value)]
        if isinstance(o, (bool, int)):
            return int(o)
        if isinstance(o, float):
            return ['f', _fhex(o)]
        if isinstance(o, (bytes, bytearray, memoryview)):
            return ['B', bytes(o).hex()]
        cls = type(o)
        name = cls.__name__
        if name in _VALUE_CLASSES:
            return ['V', _fhex(float(o[0])), _fhex(float(o[1])), _fhex(float(o[2]))]
        if isinstance(o, (list, tuple)):
            return ['L'] + [self.walk(x) for x in o]
        if isinstance(o, (set, frozenset)):
            return ['S'] + self.walk_set(o)
        if name == 'tuple_iterator':
            # srctools returns iter(()) for the face lumps VitaminSource does not use; always empty.
            return ['L'] + [self.walk(x) for x in o]
        if name == 'WeakKeyDictionary' or isinstance(o, dict):
            return ['D'] + [[self.walk(k), self.walk(v)] for k, v in list(o.items())]
        if name == 'ZipFile':
            items = []
            for zi in o.infolist():
                items.append([zi.filename, o.read(zi).hex()])
            return ['Zip', items, (o.comment or b'').hex()]
        if name == 'Keyvalues':
            if o.has_children():
                return ['KV', o.real_name, [self.walk(c) for c in o]]
            return ['KV', o.real_name, o.value]
        if name == 'Output':
            return ['Out', o.output, o.inst_out, o.target, o.input, o.inst_in, o.params, self.walk(float(o.delay)),
                    int(o.times), int(bool(o.comma_sep))]
        if name == 'VMF':
            return ['VMF', self.walk(o.spawn), [self.walk(e) for e in o.entities]]
        # ---- identity-carrying objects (classes listed in by_value are expanded at every occurrence instead)
        if name in self.by_value:
            n = -1
        else:
            new, n = self.number(o)
            if not new:
                return ['R', n]
        if name == 'Entity':
            kv = sorted([k, v] for k, v in o.items())
            return ['O', n, 'Entity', kv, [self.walk(x) for x in o.outputs]]
        if name == 'RevEdge':
            return ['O', n, 'RevEdge', self.walk(o.opposite)]
        if name == 'Edge':
            return ['O', n, 'Edge', self.walk(o.a), self.walk(o.b), self.walk(o.opposite)]
        fields = getattr(cls, '__attrs_attrs__', None)
        if fields is None:
            raise TypeError(f'canon(): no rule for {cls!r}')
        body = []
        for a in fields:
            if (name, a.name) in self.drop:
                continue
            v = getattr(o, a.name)
            fn = self.rename.get((name, a.name))
            if fn is not None:
                v = fn(v)
            body.append([a.name, self.walk(v)])
        return ['O', n, name, body]

    def walk_set(self, items) -> list:
        import json
        known = []
        fresh = []
        for x in items:
            if id(x) in self.ids:
                known.append((self.ids[id(x)], x))
            else:
                solo = _Canon(self.drop, self.rename, self.by_value)
                fresh.append((json.dumps(solo.walk(x), sort_keys=True), x))
        known.sort(key=lambda t: t[0])
        fresh.sort(key=lambda t: t[0])
        return [self.walk(x) for _, x in known] + [self.walk(x) for _, x in fresh]


def canon(obj: Any, drop=(), rename: Optional[dict] = None, by_value=()) -> Any:
    """Canonical JSON-able form of the object graph reachable from `obj`.

    attrs instances, Edge/RevEdge and Entity objects are numbered in first-visit order and later visits emit
    ['R', n], so two graphs have equal canonical forms iff they are isomorphic as rooted, ordered graphs with equal
    leaf values.  Vec/Angle are plain values, floats are compared bit-exactly, bool == int, tuples == lists,
    sets are visited in (already-numbered first, then by stand-alone form) order.
    `drop`: {(class name, field)} to leave out; `rename`: {(class name, field): fn} applied to the field value;
    `by_value`: class names whose instances are compared structurally (no identity; must not lie on a cycle).
    """
    return _Canon(set(drop), rename or {}, frozenset(by_value)).walk(obj)


def first_diff(a: Any, b: Any, path: str = '') -> Optional[str]:
    """Human-readable location of the first difference between two canonical forms (None if equal)."""
    if type(a) is not type(b):
        return f'{path}: {_short(a)} != {_short(b)}'
    if isinstance(a, list):
        if len(a) != len(b):
            tag = a[0] if a and isinstance(a[0], str) else ''
            return f'{path}: length {len(a)} != {len(b)} ({tag}) {_short(a)} != {_short(b)}'
        for i, (x, y) in enumerate(zip(a, b)):
            seg = f'[{i}]'
            if isinstance(x, list) and len(x) == 2 and isinstance(x[0], str) and x[0] not in ('L', 'S', 'D', 'f', 'B', 'R', 'E'):
                seg = f'.{x[0]}'
            d = first_diff(x, y, path + seg)
            if d is not None:
                return d
        return None
    if a != b:
        return f'{path}: {_short(a)} != {_short(b)}'
    return None


def _short(x: Any, lim: int = 160) -> str:
    if isinstance(x, list) and len(x) == 2 and x[0] == 'f':
        return repr(struct.unpack('>d', bytes.fromhex(x[1]))[0])
    s = repr(x)
    return s if len(s) <= lim else s[:lim] + '...'
