"""Shared by the cmdseq/sndscript/vmt/smd parts (not a part itself: the collector skips names starting with '_')."""
from __future__ import annotations


def guard(ctx, clause, fn, *args, **kwargs):
    """Run a harness walker/comparer over an object handed out by the code under test.

    The walkers run on every case of the unchanged tree, so an exception inside one means that a field of the object
    has an unexpected type or shape.  That is a broken clause of the round trip (reported through ``ctx.fail``), not a
    harness error.  Returns None only when the failure was accepted as a listed open finding.
    """
    try:
        return fn(*args, **kwargs)
    except (TypeError, AttributeError, KeyError, IndexError, ValueError) as exc:
        ctx.fail(clause, f'the value could not be walked: {type(exc).__name__}: {exc} '
                         f'(a field of the object under test has an unexpected type or shape)',
                 exc_type=type(exc).__name__)
        return None
