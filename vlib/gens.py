"""Shared Hypothesis strategies (descriptor level: only JSON-able values)."""
from __future__ import annotations

import struct

from hypothesis import strategies as st

# Characters that matter to the KeyValues/VMF/DMX text syntaxes.
ESCAPE_ALPHABET = '"\\\'{}[]()/*#:+=,\t\v\b\f\a? ﻿\x00\n\r$%;.-_@!&|<>'
LETTERS = 'abcXYZnrtv019'


HOT = '"\\\ufeff{}[]\n\t/*\r\''
HOT_STRINGS = ['\ufeff', '\\', '"', '\\"', '\ufeffa', 'a\ufeff', '\\n', '{', '}', '[x]', '//', '/*', '*/', '\n', '\r\n', "'",
               '\\\\', '"\\', 'a"b', ' ', '']


def text_alphabet(exclude: str = ''):
    """Weighted: the hottest syntax characters, the wider syntax set, a few letters (both cases), then any
    Unicode scalar value."""
    esc = ''.join(c for c in ESCAPE_ALPHABET if c not in exclude)
    hot = ''.join(c for c in HOT if c not in exclude)
    return st.one_of(
        st.sampled_from(hot),
        st.sampled_from(LETTERS),
        st.sampled_from(esc),
        st.characters(exclude_categories=['Cs'], exclude_characters=exclude),
    )


def hot_strings(exclude: str = ''):
    return st.sampled_from([s for s in HOT_STRINGS if not any(c in s for c in exclude)])


def kv_name(max_size: int = 8):
    """KeyValues1 names: anything except line breaks."""
    return st.one_of(st.text(text_alphabet(exclude='\r\n'), max_size=max_size), hot_strings('\r\n'),
                     st.text(text_alphabet(exclude='\r\n'), max_size=max_size))


def kv_value(max_size: int = 10):
    return st.one_of(st.text(text_alphabet(), max_size=max_size), hot_strings(), st.text(text_alphabet(), max_size=max_size))


def ident(min_size: int = 1, max_size: int = 8):
    return st.text('abcdefgXYZ_0123', min_size=min_size, max_size=max_size).map(
        lambda s: s if not s[:1].isdigit() else '_' + s[1:])


def f32(lo: float = -1e6, hi: float = 1e6):
    """Finite floats exactly representable as float32."""
    return st.floats(lo, hi, allow_nan=False, allow_infinity=False, width=32)


def to_f32(x: float) -> float:
    return struct.unpack('<f', struct.pack('<f', x))[0]


def finite(lo: float = -1e6, hi: float = 1e6):
    return st.floats(lo, hi, allow_nan=False, allow_infinity=False)


def hexbytes(min_size: int = 0, max_size: int = 64):
    return st.binary(min_size=min_size, max_size=max_size).map(bytes.hex)
