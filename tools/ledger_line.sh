#!/bin/sh
# Usage: ledger_line.sh <proposed fix name> <commit>  -- append the "fixed:" ledger line for an applied fix
n=$1; sha=$2; prop=${n%%-*}; slug=${n#*-}
subj=$(git -C /repo log -1 --format=%s $sha | sed 's/^fix: //')
rep=$(ls /verif/replays/$prop/ 2>/dev/null | grep -F "$slug" | head -1)
[ -n "$rep" ] && rep=" (replays/$prop/$rep)"
echo "fixed: property=$prop commit=$sha $subj$rep" >> /verif/KNOWN_FINDINGS.txt
