"""C05 - Angle stays in [0,360), frozen values never change, text form is canonical (DESIGN.md section 2, C05).

A case is a *command history* interpreted against a pool of live srctools objects (Vec, FrozenVec, Angle, FrozenAngle,
Matrix, FrozenMatrix).  Object references are indices taken modulo the number of live objects of the kind the command
names (a fixed default object is supplied when the pool has none), numbers are literals or components of earlier objects
(fed back, optionally negated), so every list is a valid history.
After *every* command the invariant of the sub-check is evaluated over the whole pool.  The reference model is the set
of snapshots (exact ``repr`` of every component, ``repr()`` and ``hash()`` of the object; the sign of a zero is ignored)
taken when an object was created or last legitimately modified - no srctools arithmetic is re-implemented or trusted.

Sub-checks (one clause group each, all driven by the same history interpreter):

* ``range``    every live Angle/FrozenAngle reports 0 <= pitch, yaw, roll < 360 through every accessor
* ``frozen``   no command changes the observable value of a live FrozenVec/FrozenAngle/FrozenMatrix (for a FrozenMatrix the
               history has converted: also what to_angle() reports, compared with the first conversion)
* ``copies``   copy()/copy.copy/deepcopy/pickle/freeze()/thaw()/copy-constructors give an equal, distinct object; a later
               command changes nothing but its own target (independence)
* ``text``     str() of every live Vec/Angle: plain decimals, <= 6 places, no exponent, no '-0', parses back within 5e-7
* ``fmtfloat`` the same for format_float() alone on arbitrary finite floats, and parse_vec_str() bracket/space handling
"""
from __future__ import annotations

import copy
import math
import operator
import pickle
import re

from hypothesis import strategies as st

from vlib.core import Sub

PROPERTY = 'C05'
LEVEL = 'exploration'
RULE = (
    'Hypothesis generates command histories (2-6 constructor commands, then 3 to 25 (quick) / 40 (thorough) arbitrary '
    'commands out of 20 command types: constructor forms, setters, Vec/Angle arithmetic incl. in-place and reflected forms, '
    '@ / @= for every operand mix, transform() blocks, localise, to_angle, from_basis, axis_angle, copy/deepcopy/pickle/'
    'freeze/thaw, transpose/inverse; Angle scaling also by the factor that takes a component of the target onto 360*k; '
    'to_angle() optionally followed by in-place edits of the returned Angle and a renewed to_angle() of the same matrix) over a pool of live objects; numbers come from arbitrary finite floats, exact multiples '
    'of 360, +-1e-7..1e-17, neighbours of 360, decimal-rounding boundaries and components of earlier objects (fed back, '
    'optionally negated). The invariant is checked after every command. non-trivial = the history executed >= 3 commands '
    'including a rotation (@, @=, transform, localise, to_angle, from_basis) while an earlier-created frozen object was '
    'alive; distinct = sha1 of the descriptor JSON'
)
ASSUMPTIONS = [
    'only public API is called; private slots are never written by the harness',
    'a change of -0.0 into 0.0 (or back) is not counted as a change of an observable value',
    'operands are finite: a command whose vector/matrix/scalar operand exceeds 1e30 in magnitude is skipped and an object '
    'that becomes non-finite is retired from the pool (overflow is float behaviour, not a property violation)',
    'documented exceptions are accepted: ArithmeticError from inverse() of a singular matrix; division by zero and '
    'from_basis() of (near-)zero vectors are not generated',
    'copy equality is component-wise float equality plus the library ==; independence = no command changes a mutable '
    'object other than its own target',
    'text: 6-decimal clause for |x| < 1e15; the parse-back tolerance is 5e-7 plus one ulp of x (the nearest double to '
    'the printed decimal can lie that much further away); Angle components are compared on the circle',
    'pure-Python implementation only (no Cython build possible in this sandbox)',
]
LEVEL_TEXT = ('Generated-input search: thousands (quick) to hundreds of thousands (thorough) of operation histories over a pool '
              'of live Vec/Angle/Matrix objects and their frozen twins, with the range / immutability / copy-independence / '
              'text invariants evaluated after every command; held-on-everything-explored, not a proof.')
LEVEL_NOTE = ('Trusts Hypothesis generation, pickle/copy of the standard library and the harness snapshot comparison; '
              'pure-Python math.py only (the Cython _math.pyx cannot be built here).')
TECHNIQUE = 'property-based testing (Hypothesis): model-based command histories with the invariant checked after every command'
CAPS = (300, 2400)

BIG = 1e30
VEC_K = ('Vec', 'FrozenVec')
ANG_K = ('Angle', 'FrozenAngle')
MAT_K = ('Matrix', 'FrozenMatrix')
ROT_K = ANG_K + MAT_K
ALL_K = VEC_K + ANG_K + MAT_K
FROZEN_K = ('FrozenVec', 'FrozenAngle', 'FrozenMatrix')
MUT_K = ('Vec', 'Angle', 'Matrix')
TWIN = {'Vec': 'FrozenVec', 'FrozenVec': 'Vec', 'Angle': 'FrozenAngle', 'FrozenAngle': 'Angle',
        'Matrix': 'FrozenMatrix', 'FrozenMatrix': 'Matrix'}

NEG_ZERO_RE = re.compile(r'-0\.0(?![0-9])')
TOKEN = r'-?\d+(?:\.\d{1,6})?'
TOKEN_RE = re.compile(TOKEN)
TRIPLE_RE = re.compile(f'{TOKEN} {TOKEN} {TOKEN}')


class Skip(Exception):
    """The command is not applicable to the current pool (no operand of the needed kind, magnitude guard...)."""


class Ent:
    __slots__ = ('obj', 'kind', 'snap', 'alive', 'born', 'ang_seen')

    def __init__(self, obj, kind, born):
        self.obj, self.kind, self.born, self.alive = obj, kind, born, True
        # what to_angle() of this matrix reported when the HISTORY first asked for it (None: never converted so far).  The
        # harness never converts a matrix on its own before the history does: the first conversion belongs to the history.
        self.ang_seen = None
        self.snap = snapshot(obj, kind)


def comps(obj, kind):
    if kind in VEC_K:
        return [obj.x, obj.y, obj.z]
    if kind in ANG_K:
        return [obj.pitch, obj.yaw, obj.roll]
    return [obj[i, j] for i in range(3) for j in range(3)]


def snapshot(obj, kind):
    """Everything observable that must stay put: exact component reprs, repr(), and hash() where defined."""
    # ``+ 0.0`` / the regex fold -0.0 into 0.0: the sign of a zero is not counted as a change of value.
    s = [type(obj).__name__] + [repr(c + 0.0) for c in comps(obj, kind)] + [NEG_ZERO_RE.sub('0.0', repr(obj))]
    if kind in ('FrozenVec', 'FrozenAngle'):
        s.append(hash(obj))
    return s


def kind_of(obj):
    n = type(obj).__name__
    return n if n in ALL_K else None


def circ(a, b):
    d = abs(a - b) % 360.0
    return min(d, 360.0 - d)


def num_text(x):
    """Harness-side decimal text of a number for from_str() inputs (repr is exact; may use an exponent, float() reads it)."""
    return repr(float(x))


# ------------------------------------------------------------------ the interpreter

class Machine:
    def __init__(self, ctx, mode):
        import srctools.math as sm
        self.sm = sm
        self.ctx = ctx
        self.mode = mode
        self.pool = []
        self.step = 0
        self.executed = 0
        self.rotation_with_frozen = False
        self.text_seen = set()

    # -- operand resolution
    def live(self, kinds=ALL_K):
        return [e for e in self.pool if e.alive and e.kind in kinds]

    def pick(self, idx, kinds=ALL_K, small=False):
        ents = self.live(kinds)
        if small:
            ents = [e for e in ents if max(abs(c) for c in comps(e.obj, e.kind)) <= BIG]
        if not ents:
            # keep every command valid: supply a fixed default object of the first acceptable kind
            self.ctx.label('autocreate:' + kinds[0])
            return self.add(self.default(kinds[0]), clause_ctx='default operand')
        return ents[idx % len(ents)]

    def default(self, kind):
        sm = self.sm
        if kind in VEC_K:
            return getattr(sm, kind)(1.5, -2.25, 3.0)
        if kind in ANG_K:
            return getattr(sm, kind)(10.0, 20.0, 30.0)
        return getattr(sm, kind).from_angle(10.0, 20.0, 30.0)

    def num(self, n):
        if isinstance(n, list):
            ents = self.live()
            if not ents:
                return 0.0
            e = ents[n[1] % len(ents)]
            cs = comps(e.obj, e.kind)
            x = cs[n[2] % len(cs)]
            x = -x if n[3] else x
            self.ctx.label('num:fed_back')
        else:
            x = n
        if abs(x) > BIG:
            raise Skip('magnitude')
        return x

    def cls(self, name):
        return getattr(self.sm, name)

    def add(self, obj, expect_kind=None, clause_ctx=''):
        """Register a result object.  Returns its entry (existing one if the API handed back a pooled object)."""
        k = kind_of(obj)
        if k is None:
            raise AssertionError(f'harness: unexpected result {obj!r} from {clause_ctx}')
        for e in self.pool:
            if e.obj is obj:
                return e
        cs = comps(obj, k)
        if not all(math.isfinite(c) for c in cs):
            self.ctx.label('retired:nonfinite_result')
            return None
        e = Ent(obj, k, self.step)
        self.pool.append(e)
        return e

    # -- one command; returns the entry the command was allowed to modify (or None)
    def run(self, cmd):
        op = cmd[0]
        fn = getattr(self, 'c_' + op)
        return fn(*cmd[1:])

    # constructors ------------------------------------------------------------
    def _three(self, n1, n2, n3):
        return self.num(n1), self.num(n2), self.num(n3)

    def c_vec(self, cls_name, form, n1, n2, n3, extra):
        return self._ctor3(cls_name, form, n1, n2, n3, extra, ('x', 'y', 'z'), VEC_K + ANG_K)

    def c_ang(self, cls_name, form, n1, n2, n3, extra):
        return self._ctor3(cls_name, form, n1, n2, n3, extra, ('pitch', 'yaw', 'roll'), VEC_K + ANG_K)

    def _ctor3(self, cls_name, form, n1, n2, n3, extra, names, src_kinds):
        cls = self.cls(cls_name)
        a, b, c = self._three(n1, n2, n3)
        self.ctx.label(f'ctor:{cls_name}:{form}')
        if form == 'xyz':
            o = cls(a, b, c)
        elif form == 'iter':
            o = cls(iter([a, b, c][:extra % 3 + 1]))
        elif form == 'list':
            o = cls([a, b, c])
        elif form == 'kw':
            o = cls(**{names[0]: a, names[1]: b, names[2]: c})
        elif form == 'short':
            # every sequence type x every length 0..3, the missing components supplied through the 2nd/3rd constructor
            # argument (positionally or by keyword); whatever the input form, the result is subject to the same invariant
            k = extra % 4
            items = [a, b, c][:k]
            how = (extra // 4) % 3
            seq = tuple(items) if how == 0 else (list(items) if how == 1 else iter(items))
            self.ctx.label(f'ctor_short:{cls_name}:{("tuple", "list", "iter")[how]}:{k}')
            if extra % 2:
                o = cls(seq, b, c)
            else:
                o = cls(seq, **{names[1]: b, names[2]: c})
        elif form == 'obj_fallback':
            o = cls(self.pick(extra, src_kinds).obj, b, c)
        elif form == 'obj':
            o = cls(self.pick(extra, src_kinds).obj)
        elif form == 'str':
            text = f'{num_text(a)} {num_text(b)} {num_text(c)}'
            br = ['', '()', '[]', '{}', '<>'][extra % 5]
            if br:
                text = br[0] + text + br[1]
            if extra % 2:
                text = '  ' + text + ' '
            o = cls.from_str(text)
        elif form == 'strobj':
            o = cls.from_str(self.pick(extra, VEC_K if names[0] == 'x' else ANG_K).obj)
        elif form == 'axes':
            k = extra % 3
            order = [names[(extra + i) % 3] for i in range(k + 1)]
            vals = [a, b, c][:k + 1]
            args = []
            for nm, v in zip(order, vals):
                args += [nm, v]
            o = cls.with_axes(*args)
        elif form == 'axes_obj':
            src = self.pick(extra, VEC_K if names[0] == 'x' else ANG_K).obj
            o = cls.with_axes(names[extra % 3], src, names[(extra + 1) % 3], b)
        else:
            o = cls()
        self.add(o, clause_ctx=f'{cls_name} {form}')
        return None

    def c_mat(self, cls_name, form, n1, n2, n3, i1, i2):
        cls = self.cls(cls_name)
        self.ctx.label(f'ctor:{cls_name}:{form}')
        if form == 'ident':
            o = cls()
        elif form == 'from_angle3':
            o = cls.from_angle(*self._three(n1, n2, n3))
        elif form == 'from_angle_obj':
            o = cls.from_angle(self.pick(i1, ANG_K).obj)
        elif form in ('from_pitch', 'from_yaw', 'from_roll'):
            o = getattr(cls, form)(self.num(n1))
        elif form == 'axis_angle':
            if i2 % 2:
                axis = self.pick(i1, ('Vec',), small=True).obj
            else:
                axis = tuple(float(v) for v in self._three(n1, n2, n3))
            o = cls.axis_angle(axis, self.num(n1))
        elif form == 'from_basis':
            v1 = self.pick(i1, VEC_K, small=True).obj
            v2 = self.pick(i2, VEC_K, small=True).obj
            if min(_mag(v1), _mag(v2)) < 1e-3:
                raise Skip('degenerate_basis')
            axes = ['xy', 'xz', 'yz', 'yx', 'x', 'y', 'z'][(i1 + i2) % 7]
            kw = {axes[0]: v1}
            if len(axes) > 1:
                kw[axes[1]] = v2
            o = cls.from_basis(**kw)
        elif form == 'ctor':
            o = cls(self.pick(i1, MAT_K).obj)
        elif form == 'angstr':
            a, b, c = self._three(n1, n2, n3)
            o = cls.from_angstr(f'{num_text(a)} {num_text(b)} {num_text(c)}')
        else:
            raise AssertionError(form)
        self.add(o, clause_ctx=f'{cls_name} {form}')
        return None

    def c_to_angle(self, mk, i, edits=()):
        """matrix -> Angle; then (use / change the RESULT in place / use the matrix again) x edits: the returned Angle is the
        caller's object, editing it is not an operation on the matrix."""
        m = self.pick(i, (mk,))
        self.mark_rotation()
        self.ctx.label('to_angle:' + m.kind)
        ang = m.obj.to_angle()
        if m.ang_seen is None:
            m.ang_seen = [repr(c + 0.0) for c in comps(ang, 'Angle')]
        e = self.add(ang, clause_ctx='to_angle')
        for mut, comp, n, j in edits:
            if e is None or e.kind != 'Angle' or e is m:
                break
            try:
                name = self._mutate(e, mut, comp, n, j)
            except Skip as sk:
                self.ctx.label('skip_round:' + str(sk))
                break
            self.ctx.label(f'to_angle_result_edited:{m.kind}', f'to_angle_result_edited:{name}')
            if not all(math.isfinite(c) for c in comps(e.obj, e.kind)):
                break       # invariant() retires it
            self.add(m.obj.to_angle(), clause_ctx='to_angle again')
        return e

    def c_vec_to_angle(self, vk, i, n):
        v = self.pick(i, (vk,), small=True)
        self.add(v.obj.to_angle(self.num(n)), clause_ctx='Vec.to_angle')

    def c_ang_basis(self, cls_name, i1, i2, which):
        v1 = self.pick(i1, VEC_K, small=True).obj
        v2 = self.pick(i2, VEC_K, small=True).obj
        if min(_mag(v1), _mag(v2)) < 1e-3:
            raise Skip('degenerate_basis')
        axes = ['xy', 'xz', 'yz', 'zx', 'x', 'z'][which % 6]
        kw = {axes[0]: v1}
        if len(axes) > 1:
            kw[axes[1]] = v2
        self.mark_rotation()
        self.ctx.label('ang_from_basis:' + cls_name)
        self.add(self.cls(cls_name).from_basis(**kw), clause_ctx='Angle.from_basis')

    def c_dir(self, mk, i, which, n):
        m = self.pick(i, (mk,), small=True)
        mag = self.num(n)
        fn = [m.obj.forward, m.obj.left, m.obj.up][which % 3]
        self.add(fn(mag) if which % 2 else fn(), clause_ctx='forward/left/up')

    # mutation ----------------------------------------------------------------
    def c_set(self, kind, i, comp, n, style):
        e = self.pick(i, (kind,))
        x = self.num(n)
        self.ctx.label('set:' + e.kind)
        if e.kind == 'Vec':
            ax = 'xyz'[comp % 3]
            if style % 3 == 0:
                setattr(e.obj, ax, x)
            elif style % 3 == 1:
                e.obj[ax] = x
            else:
                e.obj[comp % 3] = x
        elif e.kind == 'Angle':
            k = comp % 3
            names = [('pitch', 'pit', 'p'), ('yaw', 'y', 'yaw'), ('roll', 'rol', 'r')][k]
            if style % 5 == 0:
                setattr(e.obj, names[0], x)
            elif style % 5 == 1:
                e.obj[k] = x
            else:
                e.obj[names[style % 3]] = x
        else:
            e.obj[comp % 3, (comp // 3) % 3] = x
        return e

    def c_vop(self, vk, op, i, j, n, rhs, inplace, reflected):
        e = self.pick(i, (vk,), small=True)
        if rhs == 'scalar' or op in ('mul', 'div'):
            other = self.num(n)
            rhs = 'scalar'
        else:
            src = self.pick(j, VEC_K, small=True).obj
            other = src if rhs == 'vec' else (src.x, src.y, src.z)
        reflected = reflected and not inplace and rhs != 'vec'
        if op == 'div':
            if reflected:
                if any(abs(c) < 1e-30 for c in comps(e.obj, e.kind)):
                    raise Skip('zero_divisor')
            elif abs(other) < 1e-30:
                raise Skip('zero_divisor')
        fn = {'add': operator.add, 'sub': operator.sub, 'mul': operator.mul, 'div': operator.truediv}[op]
        ifn = {'add': operator.iadd, 'sub': operator.isub, 'mul': operator.imul, 'div': operator.itruediv}[op]
        self.ctx.label(f'vop:{e.kind}:{op}:{rhs}:{"inplace" if inplace else ("reflected" if reflected else "plain")}')
        if inplace:
            res = ifn(e.obj, other)
            if res is e.obj:
                return e
        elif reflected:
            res = fn(other, e.obj)
        else:
            res = fn(e.obj, other)
        self.add(res, clause_ctx='vec arithmetic')
        return None

    def c_unary(self, vk, op, i):
        e = self.pick(i, (vk,), small=True)
        o = e.obj
        res = {'neg': lambda: -o, 'pos': lambda: +o, 'abs': lambda: abs(o), 'norm': o.norm, 'round': lambda: round(o, 3),
               'copy_norm_mask': lambda: o.norm_mask(self.sm.Vec(0, 0, 1))}[op]()
        self.ctx.label('unary:' + op)
        self.add(res, clause_ctx='unary ' + op)

    def c_cross(self, vk, i, j, as_tuple):
        a = self.pick(i, (vk,), small=True)
        b = self.pick(j, VEC_K, small=True).obj
        self.add(a.obj.cross((b.x, b.y, b.z) if as_tuple else b), clause_ctx='cross')

    def c_amul(self, ak, i, n, form):
        e = self.pick(i, (ak,))
        if isinstance(n, list) and n and n[0] == 'm':
            # ['m', component, k, as_int]: the factor that takes the chosen component of THIS angle onto the multiple 360*k
            # (exactly when the quotient is exact - 180*2, 90*4, 45*8, 120*3 -, otherwise to within an ulp of it)
            c = comps(e.obj, e.kind)[n[1] % 3]
            x = float(n[2]) if c == 0.0 else 360.0 * n[2] / c
            if not abs(x) <= BIG:       # a denormal component: the quotient overflows
                raise Skip('magnitude')
            if n[3] and x == int(x):
                x = int(x)
            self.ctx.label('amul_to_multiple:' + ('exact' if c * x == 360.0 * n[2] and c != 0.0 else 'near'))
        else:
            x = self.num(n)
        self.ctx.label(f'amul:{e.kind}:{form}')
        if form == 'imul':
            res = operator.imul(e.obj, x)
            if res is e.obj:
                return e
        elif form == 'rmul':
            res = x * e.obj
        else:
            res = e.obj * x
        self.add(res, clause_ctx='Angle *')
        return None

    def c_matmul(self, lk, rk, i, j, inplace):
        left = self.pick(i, ('Vec', 'FrozenVec') if lk == 'tuple' else (lk,), small=True)
        right = self.pick(j, (rk,), small=True)
        self.mark_rotation()
        lo = left.obj
        if lk == 'tuple':
            lo = (lo.x, lo.y, lo.z)
        self.ctx.label(f'{"imatmul" if inplace else "matmul"}:{lk}@{right.kind}')
        if inplace:
            res = operator.imatmul(lo, right.obj)
            if res is left.obj:
                return left
        else:
            res = lo @ right.obj
        self.add(res, clause_ctx='@')
        return None

    def c_transform(self, kind, i, rots):
        e = self.pick(i, (kind,), small=True)
        # steps: [rot kind, idx] rotates the yielded matrix; ['freeze', 0] freezes it (a copy operation on the block's
        # matrix, checked like any other copy); ['set', comp, number] assigns one of its entries.
        steps = []
        for st_ in rots:
            if st_[0] == 'freeze':
                steps.append(('freeze', None))
            elif st_[0] == 'set':
                steps.append(('set', (st_[1], self.num(st_[2]))))
            else:
                steps.append(('rot', self.pick(st_[1], (st_[0],), small=True).obj))
        self.mark_rotation()
        self.ctx.label('transform:' + e.kind)
        mutated = None
        frozen_before = False
        with e.obj.transform() as m:
            for what, arg in steps:
                if what == 'rot':
                    m @= arg
                    mutated = 'imatmul'
                elif what == 'set':
                    m[arg[0] % 3, (arg[0] // 3) % 3] = arg[1]
                    mutated = 'setitem'
                else:
                    self._do_copy(None, 'freeze', obj=m, kind='Matrix')
                    self.ctx.label('transform_block:freeze' + (f'_after_{mutated}' if mutated else ''))
                    if frozen_before and mutated:
                        self.ctx.label(f'transform_block:freeze_again_after_{mutated}')
                    frozen_before, mutated = True, None
        return e

    def c_localise(self, i, j, rk, k, org_tuple):
        e = self.pick(i, ('Vec',), small=True)
        org = self.pick(j, VEC_K, small=True).obj
        if org_tuple:
            org = (org.x, org.y, org.z)
        self.mark_rotation()
        self.ctx.label(f'localise:{rk}')
        if rk is None:
            e.obj.localise(org)
        else:
            e.obj.localise(org, self.pick(k, (rk,), small=True).obj)
        return e

    def c_minmax(self, which, i, j):
        e = self.pick(i, ('Vec',))
        o = self.pick(j, VEC_K).obj
        (e.obj.max if which else e.obj.min)(o)
        return e

    def c_mat1(self, op, mk, i):
        m = self.pick(i, (mk,), small=True)
        self.ctx.label(f'{op}:{m.kind}')
        if op == 'transpose':
            res = m.obj.transpose()
        else:
            try:
                res = m.obj.inverse()
            except ArithmeticError:   # documented: "If the matrix does not have an inverse" (ZeroDivision/Overflow are subclasses)
                self.ctx.label('inverse:ArithmeticError')
                return None
        self.add(res, clause_ctx=op)
        return None

    # copies ------------------------------------------------------------------
    def c_copy(self, how, kind, i):
        self._do_copy(self.pick(i, (kind,)), how)
        return None

    def _do_copy(self, e, how, obj=None, kind=None):
        """One copy operation of ``e`` (or of a loose object); in ``copies`` mode the result must equal the source as
        it is AT THE TIME OF THIS CALL - checked at every call, also for repeated copies of one source."""
        o, k = (e.obj, e.kind) if e is not None else (obj, kind)
        sm = self.sm
        want_kind = k
        if how == 'freeze_thaw':
            how = 'thaw' if k in FROZEN_K else 'freeze'
        if how == 'copy':
            res = o.copy()
        elif how == 'copy.copy':
            res = copy.copy(o)
        elif how == 'deepcopy':
            res = copy.deepcopy(o)
        elif how.startswith('pickle'):
            res = pickle.loads(pickle.dumps(o, int(how[6:])))
        elif how == 'freeze':
            res = o.freeze()
            want_kind = TWIN[k]
        elif how == 'thaw':
            res = o.thaw()
            want_kind = TWIN[k]
        elif how == 'ctor_same':
            res = getattr(sm, k)(o)
        elif how == 'ctor_twin':
            res = getattr(sm, TWIN[k])(o)
            want_kind = TWIN[k]
        elif how in ('from_str_obj', 'from_str_twin', 'pos'):
            # pass-through constructors documented as copy routes: "If the value is already a vector/Angle, a copy will be
            # returned" (from_str), "+ on a Vector simply copies it"; matrices have none of these -> copy constructor
            if k in MAT_K or (how == 'pos' and k not in VEC_K):
                how = 'ctor_same'
                res = getattr(sm, k)(o)
            elif how == 'from_str_obj':
                res = getattr(sm, k).from_str(o)
            elif how == 'from_str_twin':
                res = getattr(sm, TWIN[k]).from_str(o)
                want_kind = TWIN[k]
            else:
                res = +o
        else:
            raise AssertionError(how)
        self.ctx.label(f'copy:{how}:{k}')
        if self.mode == 'copies':
            ctx = self.ctx
            rk = kind_of(res)
            ctx.check(rk == want_kind, 'copy_type', f'{how} of a {k} returned a {type(res).__name__}, expected {want_kind}', how=how, kind=k)
            a, b = comps(o, k), comps(res, rk)
            ctx.check(all(x == y for x, y in zip(a, b)), 'copy_equal',
                      f'{how} of {o!r} (components {a}) gave {res!r} (components {b})', how=how, kind=k)
            ctx.check((res == o) is True and (res != o) is False, 'copy_equal',
                      f'{how} of {o!r} gave {res!r}: == is {res == o}, != is {res != o}', how=how, kind=k)
            if rk in MUT_K:
                ctx.check(res is not o, 'copy_distinct', f'{how} of a {k} returned the very same mutable object', how=how, kind=k)
                for other in self.pool:
                    ctx.check(other.obj is not res, 'copy_distinct', f'{how} of a {k} returned an already pooled mutable object')
        self.add(res, clause_ctx='copy ' + how)
        return how

    # copy / mutate / copy again on ONE source object ----------------------------
    MUTATORS = {
        'Vec': ('setattr', 'setitem', 'iadd', 'isub', 'imul', 'idiv', 'imatmul', 'localise', 'minmax', 'transform'),
        'Angle': ('setattr', 'setitem', 'imul', 'imatmul', 'transform'),
        'Matrix': ('setitem', 'imatmul'),
    }

    def _mutate(self, e, mut, comp, n, j):
        """Apply one in-place mutator of the object's public API; returns its name."""
        o, k = e.obj, e.kind
        names = self.MUTATORS[k]
        name = names[mut % len(names)]
        x = self.num(n)
        if name == 'setattr':
            setattr(o, ('xyz' if k == 'Vec' else ('pitch', 'yaw', 'roll'))[comp % 3], x)
        elif name == 'setitem':
            if k == 'Matrix':
                o[comp % 3, (comp // 3) % 3] = x
            elif k == 'Vec':
                o[('x', 'y', 'z', 0, 1, 2)[comp % 6]] = x
            else:
                o[('pitch', 'yaw', 'roll', 0, 1, 2, 'p', 'y', 'r')[comp % 9]] = x
        elif name in ('iadd', 'isub', 'imul', 'idiv'):
            if max(abs(c) for c in comps(o, k)) > BIG:
                raise Skip('magnitude')
            if name == 'idiv' and abs(x) < 1e-30:
                raise Skip('zero_divisor')
            if k == 'Vec' and name in ('iadd', 'isub') and comp % 2:
                other = self.pick(j, VEC_K, small=True).obj
                x = other if comp % 4 == 1 else (other.x, other.y, other.z)
            res = {'iadd': operator.iadd, 'isub': operator.isub, 'imul': operator.imul, 'idiv': operator.itruediv}[name](o, x)
            if res is not o:
                raise AssertionError('harness: in-place operator of a mutable object rebinds')
        elif name == 'imatmul':
            if max(abs(c) for c in comps(o, k)) > BIG:
                raise Skip('magnitude')
            self.mark_rotation()
            res = operator.imatmul(o, self.pick(j, ROT_K, small=True).obj)
            if res is not o:      # C04.inplace owns that clause; here the source simply was not mutated
                self.add(res, clause_ctx='@=')
        elif name == 'localise':
            if max(abs(c) for c in comps(o, k)) > BIG:
                raise Skip('magnitude')
            o.localise((x, 0.0, -x), self.pick(j, ROT_K, small=True).obj)
        elif name == 'minmax':
            (o.max if comp % 2 else o.min)(self.pick(j, VEC_K).obj)
        elif name == 'transform':
            if max(abs(c) for c in comps(o, k)) > BIG:
                raise Skip('magnitude')
            self.mark_rotation()
            r = self.pick(j, ROT_K, small=True).obj
            with o.transform() as m:
                m @= r
        else:
            raise AssertionError(name)
        return name

    def c_cycle(self, kind, i, how, rounds):
        """copy, then (mutate the same source in place, copy it again) x rounds; equality checked at every copy."""
        e = self.pick(i, (kind,))
        self._do_copy(e, how)
        for mut, comp, n, j, how2 in rounds:
            try:
                name = self._mutate(e, mut, comp, n, j)
            except Skip as sk:      # raised before anything was changed; earlier rounds did change e, so e stays the target
                self.ctx.label('skip_round:' + str(sk))
                break
            if not all(math.isfinite(c) for c in comps(e.obj, e.kind)):
                break       # invariant() retires it
            done = self._do_copy(e, how2)
            self.ctx.label(f'{done}_again_after_{name}', f'cycle:{kind}:{name}')
        return e

    POKES = {
        'FrozenVec': ('setattr', 'setitem_index', 'setitem_name', 'aug_item', 'delattr', 'delitem', 'ifloordiv', 'imod', 'isub_tuple'),
        'FrozenAngle': ('setattr', 'setitem_index', 'setitem_name', 'aug_item', 'delattr', 'delitem', 'imul_int'),
        'FrozenMatrix': ('setitem_pair', 'aug_item', 'delitem', 'imatmul'),
    }

    def c_poke(self, kind, i, proto, comp, n):
        """Try to modify a frozen object through a public mutating protocol (attribute / item assignment, deletion,
        augmented assignment).  Refusing with TypeError/AttributeError is fine; succeeding silently is fine only if the
        observable value stays put (the ``frozen`` invariant that follows) - an augmented operator may rebind to a NEW object."""
        e = self.pick(i, (kind,), small=True)
        o = e.obj
        protos = self.POKES[kind]
        name = protos[proto % len(protos)]
        x = self.num(n)
        vec, ang = kind == 'FrozenVec', kind == 'FrozenAngle'
        attr = ('xyz' if vec else ('pitch', 'yaw', 'roll'))[comp % 3]
        if kind == 'FrozenMatrix':
            key = (comp % 3, (comp // 3) % 3)
        elif name == 'setitem_name':
            key = attr if vec else ('pitch', 'yaw', 'roll', 'p', 'y', 'r', 'pit', 'rol')[comp % 8]
        else:
            key = comp % 3
        self.ctx.label(f'poke:{kind}:{name}')
        res = None
        try:
            if name == 'setattr':
                setattr(o, attr, x)
            elif name in ('setitem_index', 'setitem_name', 'setitem_pair'):
                o[key] = x
            elif name == 'aug_item':
                o[key] += x
            elif name == 'delattr':
                delattr(o, attr)
            elif name == 'delitem':
                del o[key]
            elif name == 'ifloordiv':
                if abs(x) < 1e-30:
                    raise Skip('zero_divisor')
                res = operator.ifloordiv(o, x)
            elif name == 'imod':
                if abs(x) < 1e-30:
                    raise Skip('zero_divisor')
                res = operator.imod(o, x)
            elif name == 'isub_tuple':
                res = operator.isub(o, (x, 0.0, -x))
            elif name == 'imul_int':
                res = operator.imul(o, int(x) % 7 - 3)
            elif name == 'imatmul':
                res = operator.imatmul(o, self.pick(comp, ROT_K, small=True).obj)
            else:
                raise AssertionError(name)
        except (TypeError, AttributeError):
            self.ctx.label('poke_refused')
            return None
        if res is not None and res is not o:
            self.add(res, clause_ctx='augmented operator on a frozen object')
        return None

    def c_fmt(self, n):
        """format_float on a number of the history (text mode checks it; otherwise just exercise it)."""
        x = self.num(n)
        tok = self.sm.format_float(x)
        if self.mode == 'text':
            check_token(self.ctx, tok, float(x), f'format_float({x!r})')

    # -- bookkeeping
    def mark_rotation(self):
        if any(e.kind in FROZEN_K and e.born < self.step for e in self.live()):
            self.rotation_with_frozen = True

    # -- the invariant -----------------------------------------------------------
    def invariant(self, cmd, target):
        ctx, mode = self.ctx, self.mode
        for e in self.pool:
            if not e.alive:
                continue
            cs = comps(e.obj, e.kind)
            if not all(math.isfinite(c) for c in cs):
                if e is target or e.born == self.step:
                    e.alive = False          # overflow of finite operands: outside the property's domain
                    ctx.label('retired:nonfinite_target')
                    continue
            if mode == 'range' and e.kind in ANG_K:
                self.check_range(e, cs, cmd)
            if e is target and e.kind in MUT_K:
                e.snap = snapshot(e.obj, e.kind)
                continue
            if mode == 'frozen' and e.kind in FROZEN_K:
                now = snapshot(e.obj, e.kind)
                ctx.check(now == e.snap, 'frozen_changed',
                          f'step {self.step} {cmd}: a {e.kind} created at step {e.born} changed\n before={e.snap}\n after ={now}',
                          kind=e.kind, op=cmd[0])
                if e.ang_seen is not None and e.kind == 'FrozenMatrix':
                    # derived observation: once the history has converted this frozen matrix, every later conversion
                    # has to report the same angle (the cells above did not change, so neither may what is read from them)
                    now = [repr(c + 0.0) for c in comps(e.obj.to_angle(), 'Angle')]
                    ctx.check(now == e.ang_seen, 'frozen_changed',
                              f'step {self.step} {cmd}: to_angle() of a FrozenMatrix created at step {e.born} (cells {e.snap[1:10]}) '
                              f'changed\n first ={e.ang_seen}\n now   ={now}', kind=e.kind, op=cmd[0], view='to_angle')
            elif mode == 'copies' and e.kind in MUT_K:
                now = snapshot(e.obj, e.kind)
                ctx.check(now == e.snap, 'independent',
                          f'step {self.step} {cmd}: a {e.kind} (created at step {e.born}) that is not the target of the command changed\n'
                          f' before={e.snap}\n after ={now}', kind=e.kind, op=cmd[0])
        if mode == 'text':
            for e in self.pool:
                if e.alive and e.kind in VEC_K + ANG_K:
                    self.check_text(e, cmd)

    def check_range(self, e, cs, cmd):
        o = e.obj
        views = {
            'attributes': cs,
            'index': [o[0], o[1], o[2]],
            'names': [o['pitch'], o['yaw'], o['roll']],
            'iter': list(o),
            'as_tuple': list(o.as_tuple()),
            'reversed': list(reversed(o))[::-1],
        }
        for name, vals in views.items():
            ok = len(vals) == 3 and all(0.0 <= v < 360.0 for v in vals)
            self.ctx.check(ok, 'angle_range',
                           f'step {self.step} {cmd}: {e.kind} reports pitch/yaw/roll {vals!r} via {name}; not all in [0, 360)  repr={o!r}',
                           kind=e.kind, op=cmd[0], values=[repr(v) for v in vals])

    def check_text(self, e, cmd):
        o = e.obj
        cs = comps(o, e.kind)
        key = (e.kind, tuple(repr(c) for c in cs))
        if key in self.text_seen:
            return
        self.text_seen.add(key)
        ctx = self.ctx
        s = str(o)
        what = f'step {self.step} {cmd}: str({e.kind} with components {cs!r}) = {s!r}'
        if not ctx.check(TRIPLE_RE.fullmatch(s) is not None, 'text_shape', f'{what}: not three plain decimals with at most 6 places',
                         kind=e.kind, text=s):
            return
        toks = s.split(' ')
        big = any(abs(c) >= 1e15 for c in cs)
        ctx.label('text:big' if big else 'text:normal')
        for tok, c in zip(toks, cs):
            check_token(ctx, tok, c, what, angle=e.kind in ANG_K)
        # parse back through the class and through parse_vec_str
        back = type(o).from_str(s)
        ctx.check(type(back) is type(o), 'text_parse', f'{what}: from_str gave a {type(back).__name__}')
        bc = comps(back, e.kind)
        for c, b in zip(cs, bc):
            d = circ(c, b) if e.kind in ANG_K else abs(c - b)
            tol = 5e-7 + math.ulp(c)
            ctx.check(d <= tol, 'text_parse', f'{what}: from_str() gives {bc!r}, component {c!r} is off by {d:g} (tol {tol:g})',
                      kind=e.kind, text=s)
        pv = self.sm.parse_vec_str(s)
        ctx.check(list(pv) == [float(t) for t in toks], 'text_parse', f'{what}: parse_vec_str gives {pv!r}')
        ctx.check(list(self.sm.parse_vec_str(o)) == cs, 'text_parse', f'parse_vec_str({o!r}) does not pass the components through')


def _mag(v):
    return math.sqrt(v.x * v.x + v.y * v.y + v.z * v.z)


def check_token(ctx, tok, x, what, angle=False):
    """One printed number: plain decimal, <= 6 places, no exponent, not a negative zero, within 5e-7 of the value."""
    if not ctx.check(TOKEN_RE.fullmatch(tok) is not None and 'e' not in tok.lower(), 'text_shape',
                     f'{what}: token {tok!r} is not a plain decimal with at most 6 places', token=tok):
        return
    val = float(tok)
    ctx.check(not (tok.startswith('-') and val == 0.0), 'text_negzero', f'{what}: token {tok!r} is a negative zero',
              token=tok, value=float(x))
    if abs(x) < 1e15:
        d = circ(val, x) if angle else abs(val - x)
        tol = 5e-7 + math.ulp(x)
        ctx.check(d <= tol, 'text_value', f'{what}: token {tok!r} is {d:g} away from {x!r} (tol {tol:g})', token=tok)
    else:
        ctx.check(val == x, 'text_value', f'{what}: token {tok!r} does not read back as {x!r}', token=tok)


ROTATION_OPS = ('to_angle', 'ang_basis', 'matmul', 'transform', 'localise')


def run_history(desc, ctx, mode):
    m = Machine(ctx, mode)
    for cmd in desc['cmds']:
        m.step += 1
        try:
            target = m.run(cmd)
        except Skip as s:
            ctx.label('skip:' + str(s))
            continue
        m.executed += 1
        ctx.label('op:' + cmd[0])
        m.invariant(cmd, target)
    ctx.nontrivial(m.executed >= 3 and m.rotation_with_frozen)
    if any(e.kind in ANG_K for e in m.pool):
        ctx.label('has_angle')
    ctx.label('pool>=8' if len(m.pool) >= 8 else 'pool<8')


def exec_range(desc, ctx):
    run_history(desc, ctx, 'range')


def exec_frozen(desc, ctx):
    run_history(desc, ctx, 'frozen')


def exec_copies(desc, ctx):
    run_history(desc, ctx, 'copies')


def exec_text(desc, ctx):
    run_history(desc, ctx, 'text')


# ------------------------------------------------------------------ strategies (descriptors only)

NEAR_360 = [
    math.nextafter(360.0, 0.0), math.nextafter(360.0, math.inf), math.nextafter(-360.0, 0.0), math.nextafter(720.0, 0.0),
    359.9999999, 359.9999995, 359.99999949, 360.0000004, -1e-14, -2.8e-14, -2.9e-14, -5.7e-14, 5e-324, -5e-324,
]
COMMON = [0.0, -0.0, 1.0, -1.0, 2.0, 0.5, -0.5, 90.0, 180.0, 270.0, -90.0, 45.0, 30.0, -30.0, 1, -1, 2, 0, 3, 360, -360, 90, 1e-3]
TEXT_EDGE = [5e-7, -5e-7, 4.9999999e-7, -4.9999999e-7, 5.0000001e-7, 0.0000015, -0.0000015, 0.9999995, 0.99999949, -0.9999995,
             123456.7890125, 999999.9999995, 1e15, -1e15, 999999999999999.9, 1e22, 1.5e300, -1e-9, -1e-7, 1e-320, 0.1, 0.3, 1 / 3]


def literal():
    return st.one_of(
        st.floats(-1e6, 1e6, allow_nan=False, allow_infinity=False),
        st.floats(-720, 720, allow_nan=False, allow_infinity=False),
        st.integers(-4, 4).map(lambda k: 360.0 * k),
        st.sampled_from(COMMON),
        st.builds(lambda s, e: s * 10.0 ** -e, st.sampled_from([1, -1, -1]), st.integers(7, 17)),
        st.builds(lambda b, s, e: b + s * 10.0 ** -e, st.sampled_from([90.0, 180.0, 270.0, 360.0, -360.0, 720.0]),
                  st.sampled_from([1, -1]), st.integers(7, 14)),
        st.sampled_from(NEAR_360),
        st.integers(-10 ** 9, 10 ** 9).map(lambda k: k / 1e6),
        st.integers(-10 ** 7, 10 ** 7).map(lambda k: (k + 0.5) / 1e6),
    )


def multiple_factor():
    """Scale factors computed against the target angle: component * factor lands on (or within an ulp of) 360*k."""
    return st.tuples(st.just('m'), st.integers(0, 2), st.sampled_from([1, 1, 1, 2, -1, 3, -2]), st.booleans()).map(list)


def tiny_factor():
    """Scale factors that take an angle component (< 360) to within an ulp of zero, from either side."""
    return st.builds(lambda sg, m, e: sg * m * 10.0 ** -e, st.sampled_from([-1, 1, -1]), st.floats(1, 9), st.integers(14, 19))


def number():
    fed = st.tuples(st.just('c'), st.integers(0, 40), st.integers(0, 8), st.booleans()).map(list)
    return st.one_of(literal(), literal(), fed)


def number_wide():
    """For text: additionally large magnitudes (|x| up to 1e15 is inside the 6-place clause) and rounding boundaries."""
    return st.one_of(
        number(), st.sampled_from(TEXT_EDGE),
        st.floats(-1e15, 1e15, allow_nan=False, allow_infinity=False),
        st.floats(-1e-5, 1e-5, allow_nan=False, allow_infinity=False),
    )


IDX = st.integers(0, 40)
SMALL = st.integers(0, 11)


def cmd_ctor(num):
    vec_forms = st.sampled_from(['xyz', 'xyz', 'iter', 'list', 'kw', 'obj', 'str', 'strobj', 'axes', 'axes_obj', 'default',
                                 'short', 'short', 'short', 'obj_fallback'])
    mat_forms = st.sampled_from(['ident', 'from_angle3', 'from_angle3', 'from_angle_obj', 'from_pitch', 'from_yaw', 'from_roll',
                                 'axis_angle', 'from_basis', 'ctor', 'angstr'])
    return st.one_of(
        st.tuples(st.just('vec'), st.sampled_from(VEC_K), vec_forms, num, num, num, SMALL),
        st.tuples(st.just('ang'), st.sampled_from(ANG_K), vec_forms, num, num, num, SMALL),
        st.tuples(st.just('ang'), st.sampled_from(ANG_K), vec_forms, num, num, num, SMALL),
        st.tuples(st.just('mat'), st.sampled_from(MAT_K), mat_forms, num, num, num, IDX, IDX),
        st.tuples(st.just('mat'), st.sampled_from(MAT_K), mat_forms, num, num, num, IDX, IDX),
    )


def cmd_any(num):
    b = st.booleans()
    vk, ak, mk, rk = st.sampled_from(VEC_K), st.sampled_from(ANG_K), st.sampled_from(MAT_K), st.sampled_from(ROT_K)
    copies = st.sampled_from(['copy', 'copy.copy', 'deepcopy', 'pickle2', 'pickle4', 'pickle5', 'freeze_thaw', 'freeze_thaw',
                              'ctor_same', 'ctor_twin', 'from_str_obj', 'from_str_obj', 'from_str_twin', 'pos'])
    # NB one_of() drops repeated *identical* strategy objects, so weights are given by building fresh objects.
    def matmul():
        return st.tuples(st.just('matmul'), st.sampled_from(ALL_K + ('tuple',)), rk, IDX, IDX, b)

    def copy_():
        return st.tuples(st.just('copy'), copies, st.sampled_from(ALL_K), IDX)

    def vop():
        return st.tuples(st.just('vop'), vk, st.sampled_from(['add', 'sub', 'mul', 'div']), IDX, IDX, num,
                         st.sampled_from(['vec', 'tuple', 'scalar']), b, b)

    def set_():
        return st.tuples(st.just('set'), st.sampled_from(MUT_K), IDX, SMALL, num, SMALL)

    mut_copies = st.sampled_from(['freeze', 'freeze', 'copy', 'copy.copy', 'deepcopy', 'pickle2', 'pickle5', 'ctor_same', 'ctor_twin',
                                  'from_str_obj', 'from_str_twin', 'pos'])

    def cycle():
        rnd = st.tuples(SMALL, SMALL, num, IDX, mut_copies)
        return st.tuples(st.just('cycle'), st.sampled_from(MUT_K + ('Matrix',)), IDX, mut_copies, st.lists(rnd, min_size=1, max_size=3))

    def poke():
        return st.tuples(st.just('poke'), st.sampled_from(FROZEN_K), IDX, SMALL, SMALL, num)

    def transform():
        step = st.one_of(st.tuples(rk, IDX), st.tuples(rk, IDX), st.tuples(st.just('freeze'), st.just(0)),
                         st.tuples(st.just('set'), SMALL, num))
        return st.tuples(st.just('transform'), st.sampled_from(['Vec', 'Angle', 'Angle']), IDX, st.lists(step, min_size=0, max_size=4))

    # Hypothesis favours the first alternatives (zeroed / shrunk draws), so the commands that matter most come first and
    # the constructors (already covered by the history prefix) last.
    return st.one_of(
        matmul(), matmul(), matmul(), matmul(), matmul(), matmul(), matmul(), matmul(),
        copy_(), copy_(), copy_(), copy_(), copy_(), copy_(),
        set_(), set_(),
        st.tuples(st.just('amul'), ak, IDX, st.one_of(num, tiny_factor(), multiple_factor()),
                  st.sampled_from(['mul', 'rmul', 'imul', 'imul'])),
        st.tuples(st.just('amul'), ak, IDX, st.one_of(num, tiny_factor(), multiple_factor()),
                  st.sampled_from(['mul', 'rmul', 'imul', 'imul'])),
        st.tuples(st.just('to_angle'), mk, IDX, st.lists(st.tuples(SMALL, SMALL, num, IDX), max_size=2)),
        st.tuples(st.just('to_angle'), mk, IDX, st.lists(st.tuples(SMALL, SMALL, num, IDX), max_size=2)),
        transform(), transform(),
        cycle(), cycle(), cycle(), cycle(),
        vop(), vop(),
        poke(), poke(), poke(),
        st.tuples(st.just('localise'), IDX, IDX, st.one_of(st.none(), rk), IDX, b),
        st.tuples(st.just('mat1'), st.sampled_from(['transpose', 'inverse']), mk, IDX),
        st.tuples(st.just('ang_basis'), ak, IDX, IDX, SMALL),
        st.tuples(st.just('vec_to_angle'), vk, IDX, num),
        st.tuples(st.just('dir'), mk, IDX, SMALL, num),
        st.tuples(st.just('unary'), vk, st.sampled_from(['neg', 'pos', 'abs', 'norm', 'round', 'copy_norm_mask']), IDX),
        st.tuples(st.just('cross'), vk, IDX, IDX, b),
        st.tuples(st.just('minmax'), b, IDX, IDX),
        st.tuples(st.just('fmt'), num),
        cmd_ctor(num),
    )


def _jsonable(x):
    if isinstance(x, (tuple, list)):
        return [_jsonable(v) for v in x]
    return x


def history_strategy(tier, wide=False):
    num = number_wide() if wide else number()
    n = 25 if tier == 'quick' else 40
    return st.tuples(
        st.lists(cmd_ctor(num), min_size=2, max_size=6),
        st.lists(cmd_any(num), min_size=3, max_size=n),
    ).map(lambda t: {'cmds': _jsonable(t[0] + t[1])})


def history_strategy_text(tier):
    return history_strategy(tier, wide=True)


# ------------------------------------------------------------------ fmtfloat: format_float / parse_vec_str alone

def fmt_strategy(tier):
    x = st.one_of(
        st.floats(allow_nan=False, allow_infinity=False, min_value=-1e15, max_value=1e15),
        st.floats(-1e-5, 1e-5, allow_nan=False, allow_infinity=False),
        st.floats(-1e6, 1e6, allow_nan=False, allow_infinity=False),
        st.floats(allow_nan=False, allow_infinity=False, min_value=-1e300, max_value=1e300),
        literal(), st.sampled_from(TEXT_EDGE),
        st.integers(-10 ** 12, 10 ** 12),
    )
    return st.fixed_dictionaries({
        'xs': st.tuples(x, x, x).map(list),
        'bracket': st.sampled_from(['', '()', '[]', '{}', '<>', '(', ']']),
        'pad': st.sampled_from(['', ' ', '\t', '  \n']),
        'sep': st.sampled_from([' ', '  ', '\t', ' \t ']),
    })


def exec_fmt(desc, ctx):
    from srctools.math import format_float, parse_vec_str
    xs = desc['xs']
    toks = []
    for x in xs:
        tok = format_float(x)
        toks.append(tok)
        ax = abs(x)
        ctx.label('fmt:zero' if ax == 0 else 'fmt:<5e-7' if ax < 5e-7 else 'fmt:<1' if ax < 1 else 'fmt:<1e15' if ax < 1e15 else 'fmt:>=1e15')
        if x < 0 and ax < 5e-7:
            ctx.label('fmt:tiny_negative')
        ctx.check(isinstance(tok, str), 'text_shape', f'format_float({x!r}) returned {tok!r}')
        check_token(ctx, tok, float(x), f'format_float({x!r})')
    ctx.nontrivial(any(isinstance(x, float) and x != int(x) for x in xs))
    # parse_vec_str: brackets and surrounding whitespace are ignored; the numbers read back as float() reads them
    br = desc['bracket']
    text = desc['sep'].join(toks)
    if len(br) == 2:
        text = br[0] + text + br[1]
    elif br == '(':
        text = '(' + text
    elif br == ']':
        text = text + ']'
    text = desc['pad'] + text + desc['pad']
    got = parse_vec_str(text, 'dx', 'dy', 'dz')
    want = tuple(float(t) for t in toks)
    ctx.check(got == want and all(type(g) is float for g in got), 'text_parse', f'parse_vec_str({text!r}) = {got!r}, expected {want!r}')


# ------------------------------------------------------------------ registration

_OPS = ('op:vec', 'op:ang', 'op:mat', 'op:to_angle', 'op:vec_to_angle', 'op:ang_basis', 'op:dir', 'op:set', 'op:vop', 'op:unary',
        'op:cross', 'op:amul', 'op:matmul', 'op:transform', 'op:cycle', 'op:poke', 'op:localise', 'op:minmax', 'op:mat1', 'op:copy', 'op:fmt')
_MATMUL = tuple(f'{f}:{l}@{r}' for f in ('matmul', 'imatmul') for l in ALL_K + ('tuple',) for r in ROT_K)
_COPIES = tuple(f'copy:{h}:{k}' for h in ('copy', 'copy.copy', 'deepcopy', 'pickle2', 'pickle5', 'ctor_same', 'ctor_twin') for k in ALL_K) \
    + tuple(f'copy:freeze:{k}' for k in MUT_K) + tuple(f'copy:thaw:{k}' for k in FROZEN_K) \
    + tuple(f'copy:{h}:{k}' for h in ('from_str_obj', 'from_str_twin') for k in VEC_K + ANG_K) + ('copy:pos:Vec', 'copy:pos:FrozenVec')

_CYCLES = ('freeze_again_after_setitem', 'freeze_again_after_imatmul', 'copy_again_after_setitem', 'deepcopy_again_after_setitem',
           'pickle5_again_after_setitem', 'transform_block:freeze_after_setitem', 'transform_block:freeze_after_imatmul',
           'transform_block:freeze_again_after_setitem') \
    + tuple(f'cycle:{k}:{m}' for k, ms in Machine.MUTATORS.items() for m in ms)

_POKES = tuple(f'poke:{k}:{p}' for k, ps in Machine.POKES.items() for p in ps)
_SHORT = tuple(f'ctor_short:{k}:{t}:{n}' for k in ANG_K for t in ('tuple', 'list', 'iter') for n in range(4))

SUBCHECKS = [
    Sub('range', exec_range, strategy=history_strategy, quick=8000, thorough=160000, quick_shards=8, floor=300,
        must_hit=_OPS + ('has_angle', 'num:fed_back', 'to_angle:Matrix', 'to_angle:FrozenMatrix', 'transform:Angle',
                         'amul:Angle:imul', 'amul:Angle:mul', 'amul:FrozenAngle:mul', 'amul:Angle:rmul', 'amul:FrozenAngle:rmul',
                         'amul_to_multiple:exact', 'amul_to_multiple:near', 'set:Angle', 'ang_from_basis:Angle', 'ang_from_basis:FrozenAngle') + _SHORT
        + tuple(f'{f}:{l}@{r}' for f in ('matmul', 'imatmul') for l in ANG_K for r in ROT_K)),
    Sub('frozen', exec_frozen, strategy=history_strategy, quick=8000, thorough=160000, quick_shards=8, floor=300,
        must_hit=_OPS + _MATMUL + _POKES + ('to_angle_result_edited:FrozenMatrix', 'to_angle_result_edited:Matrix')
        + tuple(f'to_angle_result_edited:{m}' for m in Machine.MUTATORS['Angle'])),
    Sub('copies', exec_copies, strategy=history_strategy, quick=8000, thorough=160000, quick_shards=8, floor=300, must_hit=_OPS + _COPIES + _CYCLES),
    Sub('text', exec_text, strategy=history_strategy_text, quick=5000, thorough=100000, quick_shards=8, floor=200,
        must_hit=_OPS + ('text:normal', 'text:big')),
    Sub('fmtfloat', exec_fmt, strategy=fmt_strategy, quick=16000, thorough=400000, floor=1000,
        must_hit=('fmt:zero', 'fmt:<5e-7', 'fmt:<1', 'fmt:<1e15', 'fmt:>=1e15', 'fmt:tiny_negative')),
]

def match_negzero_text(desc, clause, facts):
    """Open finding: a negative number that rounds to zero at 6 places is printed as '-0' (format_float keeps the sign).

    Recognises exactly that: the no-'-0' clause, the token is literally '-0', and the printed value lies in [-5e-7, 0).
    tests/test_vec.py::test_vec_ang_stringification pins the output ('-0 38 163'), so no repair passes the unedited suite.
    """
    return clause == 'text_negzero' and facts.get('token') == '-0' and -5e-7 <= facts.get('value', 1.0) < 0.0


MATCHERS = {'negzero_text': match_negzero_text}
