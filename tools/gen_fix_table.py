#!/usr/bin/env python3
"""Regenerate the 'Repaired defects' table of DESIGN.md section 3.2 from the fixed: lines of KNOWN_FINDINGS.txt."""
import re
import sys

rows = []
for line in open('/verif/KNOWN_FINDINGS.txt'):
    m = re.match(r'fixed: property=(C\d+) commit=(\w+) (.*)', line.strip())
    if m:
        prop, commit, text = m.groups()
        text = re.sub(r'\s*\(replays/[^)]*\)\s*$', '', text).replace('|', '\\|')
        rows.append((prop, commit, text))
rows.sort(key=lambda r: r[0])
table = ['| Prop | repo commit | what failed before the repair |', '|---|---|---|'] + [
    f'| {p} | `{c}` | {t} |' for p, c, t in rows]
src = open('/verif/DESIGN.md').read()
start = src.index('| Prop | repo commit | what failed before the repair |')
end = src.index('\n\n', start)
src = src[:start] + '\n'.join(table) + src[end:]
src = re.sub(r'\*\*\d+ were repaired\*\*', f'**{len(rows)} were repaired**', src)
open('/verif/DESIGN.md', 'w').write(src)
print(len(rows), 'rows')
