"""Common machinery for the srctools property checks (see DESIGN.md section 1).

A *check module* (``checks/cNN_*.py``) exposes::

    PROPERTY = 'C01'
    LEVEL    = 'exploration'            # evidence level
    RULE     = '...'                    # how cases are generated / what is non-trivial
    SUBCHECKS = [Sub(...), ...]
    MATCHERS  = {'name': lambda desc, clause, facts: bool}   # predicates for KNOWN_FINDINGS.txt
    ASSUMPTIONS = [...]

Every generated case is a JSON-able *descriptor*.  ``Sub.execute(desc, ctx)`` builds the srctools
objects from it and runs the oracle; it reports a broken clause through ``ctx.fail(clause, msg, **facts)``
(which raises `Violation` unless the failure is a listed open known finding).  Hypothesis only ever
generates descriptors, so the shrunk descriptor is the replay file and ``--replay`` bypasses the library.
"""
from __future__ import annotations

import hashlib
import json
import os
import sys
import time
import traceback
from collections import Counter
from typing import Any, Callable, Iterable, Optional

VERIF_DIR = os.path.dirname(os.path.dirname(os.path.abspath(__file__)))
REPO_DIR = os.environ.get('VERIF_REPO', '/repo')
REPO_SRC = os.path.join(REPO_DIR, 'src') + os.sep
KNOWN_FILE = os.environ.get('VERIF_KNOWN_FILE') or os.path.join(VERIF_DIR, 'KNOWN_FINDINGS.txt')


class Violation(Exception):
    """A property clause does not hold for the current case."""
    def __init__(self, clause: str, message: str, facts: Optional[dict] = None) -> None:
        super().__init__(f'[{clause}] {message}')
        self.clause = clause
        self.message = message
        self.facts = facts or {}


class HarnessError(Exception):
    """Something is wrong with the machinery itself (exit status 2, never a VIOLATION)."""


def canon_json(desc: Any) -> str:
    return json.dumps(desc, sort_keys=True, ensure_ascii=True, separators=(',', ':'))


def desc_hash(desc: Any) -> int:
    return int.from_bytes(hashlib.sha1(canon_json(desc).encode('ascii')).digest()[:8], 'big')


class Sub:
    """One oracle clause group of a property, run as its own generated search."""
    def __init__(
        self,
        name: str,
        execute: Callable[[Any, 'Ctx'], None],
        strategy: Optional[Callable[[str], Any]] = None,
        enumerate: Optional[Callable[[str], Iterable[Any]]] = None,
        fixed: Optional[Callable[[str], Iterable[Any]]] = None,
        quick: int = 1000,
        thorough: int = 20000,
        quick_shards: int = 4,
        thorough_shards: int = 16,
        floor: int = 1,
        must_hit: Iterable[str] = (),
        enum_counts_distinct: bool = True,
    ) -> None:
        self.name = name
        self.execute = execute
        self.strategy = strategy          # tier -> hypothesis strategy of descriptors
        self.enumerate = enumerate        # tier -> iterable of descriptors (finite domain, partitioned over shards)
        self.fixed = fixed                # tier -> iterable of descriptors always run (on shard 0)
        self.quick = quick
        self.thorough = thorough
        self.quick_shards = quick_shards
        self.thorough_shards = thorough_shards
        self.floor = floor                # minimum distinct non-trivial cases, else harness error
        self.must_hit = tuple(must_hit)   # histogram classes that must be non-zero, else harness error
        self.enum_counts_distinct = enum_counts_distinct


class KnownFinding:
    def __init__(self, status: str, prop: str, sub: str, match: str, text: str, commit: str = '') -> None:
        self.status, self.prop, self.sub, self.match, self.text, self.commit = status, prop, sub, match, text, commit


def load_known(prop: str) -> list[KnownFinding]:
    """Parse KNOWN_FINDINGS.txt (committed, never written at run time)."""
    res: list[KnownFinding] = []
    if not os.path.exists(KNOWN_FILE):
        return res
    with open(KNOWN_FILE, encoding='utf8') as f:
        for line in f:
            line = line.strip()
            if not line or line.startswith('#'):
                continue
            status, _, rest = line.partition(':')
            status = status.strip()
            if status not in ('open', 'fixed'):
                raise HarnessError(f'bad line in KNOWN_FINDINGS.txt: {line!r}')
            words = rest.split()
            fields: dict[str, str] = {}
            text_words = []
            for w in words:
                k, eq, v = w.partition('=')
                if eq and k in ('property', 'subcheck', 'match', 'commit') and k not in fields and not text_words:
                    fields[k] = v
                else:
                    text_words.append(w)
            if fields.get('property') != prop:
                continue
            res.append(KnownFinding(
                status, prop, fields.get('subcheck', '*'), fields.get('match', ''),
                ' '.join(text_words), fields.get('commit', ''),
            ))
    return res


class Ctx:
    """Per-case context handed to ``execute``."""
    def __init__(self, state: 'ShardState', desc: Any) -> None:
        self._state = state
        self.desc = desc
        self.is_nontrivial = False
        self.labels: list[str] = []
        self.known_hits: list[str] = []
        self.tier = state.tier
        self.extra = 0

    def count(self, n: int = 1) -> None:
        """Record `n` further executions done inside this case (e.g. fault points enumerated per scenario)."""
        self.extra += int(n)

    def nontrivial(self, flag: bool = True) -> None:
        if flag:
            self.is_nontrivial = True

    def label(self, *names: str) -> None:
        self.labels.extend(names)

    def fail(self, clause: str, message: str, **facts: Any) -> None:
        """Report a broken clause.  Returns (instead of raising) only for a listed open finding."""
        st = self._state
        for kf in st.open_known:
            if kf.sub not in ('*', st.sub.name):
                continue
            fn = st.matchers.get(kf.match)
            if fn is None:
                raise HarnessError(f'KNOWN_FINDINGS.txt names unknown matcher {kf.match!r}')
            try:
                hit = bool(fn(self.desc, clause, facts))
            except Exception as exc:  # a matcher must not hide a failure
                raise HarnessError(f'matcher {kf.match} raised {exc!r}') from exc
            if hit:
                self.known_hits.append(kf.match)
                return
        raise Violation(clause, message, facts)

    def check(self, cond: Any, clause: str, message: str = '', **facts: Any) -> bool:
        if not cond:
            self.fail(clause, message or clause, **facts)
            return False
        return True


def _touches_repo(tb) -> Optional[str]:
    """Innermost frame of the traceback that lies inside the repository source, as 'file:func:line'."""
    found = None
    for fr in traceback.extract_tb(tb):
        if fr.filename.startswith(REPO_SRC):
            found = f'{fr.filename[len(REPO_SRC):]}:{fr.name}'
    return found


class ShardState:
    def __init__(self, module, sub: Sub, tier: str, cap_at: float) -> None:
        self.module = module
        self.sub = sub
        self.tier = tier
        self.cap_at = cap_at
        self.matchers = getattr(module, 'MATCHERS', {})
        self.open_known = [k for k in load_known(module.PROPERTY) if k.status == 'open']
        self.evaluations = 0
        self.nontrivial_hashes: set[int] = set()
        self.nontrivial_count = 0
        self.classes: Counter = Counter()
        self.known_hits: Counter = Counter()
        self.samples: list[Any] = []
        self.skipped_budget = 0
        self.extra_evals = 0
        self.failing: Optional[dict] = None     # last failing case (after shrinking = minimal)
        self.harness_error: Optional[str] = None
        self.seen_failure = False

    def run_case(self, desc: Any, hashing: bool = True) -> None:
        if not self.seen_failure and time.time() > self.cap_at:
            self.skipped_budget += 1
            return
        ctx = Ctx(self, desc)
        self.evaluations += 1
        try:
            try:
                self.sub.execute(desc, ctx)
            except Violation:
                raise
            except HarnessError:
                raise
            except (KeyboardInterrupt, SystemExit):
                raise
            except BaseException as exc:
                where = _touches_repo(exc.__traceback__)
                if where is None:
                    raise
                tbtxt = ''.join(traceback.format_exception(type(exc), exc, exc.__traceback__)[-6:])
                ctx.fail(
                    'exception:' + type(exc).__name__,
                    f'unexpected {type(exc).__name__}: {exc} (in {where})\n{tbtxt}',
                    exc_type=type(exc).__name__, where=where, exc_msg=str(exc),
                )
        except Violation as v:
            self.seen_failure = True
            self.failing = {
                'property': self.module.PROPERTY, 'subcheck': self.sub.name, 'clause': v.clause,
                'message': v.message[:4000], 'desc': desc,
            }
            raise
        finally:
            for lab in ctx.labels:
                self.classes[lab] += 1
            for k in ctx.known_hits:
                self.known_hits[k] += 1
            self.extra_evals += ctx.extra
        if ctx.is_nontrivial:
            if hashing:
                h = desc_hash(desc)
                if h not in self.nontrivial_hashes:
                    self.nontrivial_hashes.add(h)
                    if len(self.samples) < 3:
                        self.samples.append(desc)
            else:
                self.nontrivial_count += 1
                if len(self.samples) < 3:
                    self.samples.append(desc)

    def result(self) -> dict:
        return {
            'sub': self.sub.name,
            'evaluations': self.evaluations,
            'extra_evals': self.extra_evals,
            'nontrivial_hashes': self.nontrivial_hashes,
            'nontrivial_count': self.nontrivial_count,
            'classes': self.classes,
            'known_hits': self.known_hits,
            'samples': self.samples,
            'skipped_budget': self.skipped_budget,
            'failing': self.failing,
            'harness_error': self.harness_error,
        }


def run_shard(module, sub_index: int, tier: str, seed: int, shard: int, nshards: int, cap_at: float) -> dict:
    sub: Sub = module.SUBCHECKS[sub_index]
    state = ShardState(module, sub, tier, cap_at)
    t_start = time.time()
    try:
        if sub.fixed is not None and shard == 0:
            for desc in sub.fixed(tier):
                try:
                    state.run_case(desc)
                except Violation:
                    return state.result()
        if sub.enumerate is not None:
            for i, desc in enumerate(sub.enumerate(tier)):
                if i % nshards != shard:
                    continue
                try:
                    state.run_case(desc, hashing=not sub.enum_counts_distinct)
                except Violation:
                    return state.result()
        if sub.strategy is not None:
            total = sub.quick if tier == 'quick' else sub.thorough
            n = max(1, total // nshards)
            _run_hypothesis(state, sub, tier, seed * 1000 + shard * 7 + sub_index * 131, n)
    except HarnessError as exc:
        state.harness_error = ''.join(traceback.format_exception(type(exc), exc, exc.__traceback__))
    except Exception as exc:
        state.harness_error = ''.join(traceback.format_exception(type(exc), exc, exc.__traceback__))
    res = state.result()
    res['cpu_wall_s'] = time.time() - t_start
    return res


def _run_hypothesis(state: ShardState, sub: Sub, tier: str, hseed: int, n: int) -> None:
    """Run ``n`` generated cases.  Done in chunks (each its own seeded Hypothesis run) so that the wall-clock
    safety cap ends generation promptly instead of drawing and skipping every remaining example."""
    import hypothesis
    from hypothesis import HealthCheck, Phase, given, settings

    strat = sub.strategy(tier)
    chunk = 1000
    done = 0
    part = 0
    while done < n:
        if time.time() > state.cap_at:
            state.skipped_budget += n - done
            return
        this = min(chunk, n - done)

        @hypothesis.seed(hseed + part * 7919)
        @settings(
            max_examples=this, database=None, deadline=None, derandomize=False, report_multiple_bugs=False,
            suppress_health_check=list(HealthCheck), phases=[Phase.generate, Phase.shrink],
            verbosity=hypothesis.Verbosity.quiet, print_blob=False,
        )
        @given(strat)
        def test(desc):
            state.run_case(desc)

        try:
            test()
        except Violation:
            return  # state.failing holds the last (= minimal) failing case
        except hypothesis.errors.Flaky as exc:      # includes FlakyFailure
            if state.failing is not None:
                # The oracle is a pure function of (descriptor, code); a case that violated a clause once and passes when
                # re-run means the code under test keeps hidden state between calls (caches, class-level lists ...).
                # The observed violation stands; the replay file may pass in a fresh process.
                state.failing['message'] = (state.failing['message'] +
                                            '\n[not reproducible on immediate re-run in the same process: the failure depends on state '
                                            'srctools kept from earlier cases]')[:4000]
            else:
                state.harness_error = 'Flaky: ' + ''.join(traceback.format_exception(type(exc), exc, exc.__traceback__))[-3000:]
            return
        done += this
        part += 1


def execute_replay(module, replay: dict) -> Optional[dict]:
    """Run one saved case directly (no Hypothesis).  Returns the failure record or None."""
    subs = {s.name: s for s in module.SUBCHECKS}
    sub = subs.get(replay['subcheck'])
    if sub is None:
        raise HarnessError(f"replay names unknown subcheck {replay['subcheck']!r}")
    state = ShardState(module, sub, 'quick', time.time() + 3600)
    try:
        state.run_case(replay['desc'])
    except Violation:
        return {'failing': state.failing, 'known_hits': state.known_hits}
    return {'failing': None, 'known_hits': state.known_hits}
