"""C14 - DMX export/parse preserves the element graph, binary and KeyValues2 (DESIGN.md section 2, C14)."""
from __future__ import annotations

import io

from hypothesis import strategies as st

from vlib.core import Sub
from vlib import dmxgen, gens
from checks import c01_kv_roundtrip as c01

PROPERTY = 'C14'
LEVEL = 'exploration'
RULE = (
    'Hypothesis generates graph descriptors (1-12 elements (quick tier: 1-8) with type/name/UUID; 0-7 attributes each of one of the 14 '
    'value types, scalar or array incl. empty; element attributes point at element indices, NULL or stub UUIDs, so DAG '
    'sharing, self references and cycles arise directly) plus a unicode mode; every graph is exported in binary v1-v5 / '
    'KeyValues2 nested+flat x cull_uuid and parsed back; non-trivial = >=2 reachable elements with a shared or cyclic '
    'reference and >=1 array attribute; distinct = sha1 of the descriptor JSON'
)
ASSUMPTIONS = [
    'element UUIDs are pairwise distinct, stub UUIDs differ from every element UUID and are non-zero (the UUID is the '
    'identity of an element in both encodings)',
    'elements may have had their "name" attribute removed (del / pop / clear / popitem) before export: Element.name is '
    'documented to be "" then, and that is the expected name after the round trip; other post-build edits (delete and '
    're-add, assignment over an existing key, setdefault) change order/type as dict semantics say',
    'attribute names are distinct case-insensitively and never "name" (that key is the element name); "id" is allowed '
    '(from_kv1 documents that only the elementid type is special)',
    'strings hold no lone surrogates; no NUL in graphs sent through the binary encoding (NUL-terminated on the wire) - '
    'KeyValues2 graphs do contain NUL',
    'binary values are compared bitwise: +0.0 and -0.0 are different (angle components excepted - an Angle normalises '
    'on construction - and text, which is only "to 6 decimals"); attribute keys are the casefolded names, and '
    'elem[attr.name] must find the attribute (names with lower() != casefold() are generated)',
    'string-table capacity per binary version (from the format): v2/v3 32767 strings (int16 count), v4 32768 (32-bit '
    'count, int16 indexes 0..32767), v5 unbounded here; above that a refusal is accepted - the unchanged tree raises '
    'struct.error from packing the count (v2/v3 at 32768) or the index 32768 (v4 at 32769), after the header was '
    'written; at or below the capacity an exception is a violation.  Element counts and array lengths are int32 in '
    'every version (255/256/257 elements, arrays of 255/256/65535/65536 are fixed cases)',
    'binary: TIME only for version >= 3 (ValueError accepted below); ints in int32; floats float32-representable; '
    'colours 0-255; Time a multiple of 1/10000 s inside int32; angle components in [0, 360)',
    'KeyValues2: an element type is never a value-type keyword, "<valuetype>_array", "element" or "elementid" '
    '(compared case-insensitively) - these are in-band syntax; any other type, including ones that merely end in '
    '"_array"/"_Array" or start with a value-type word (DmeFloat_Array, Int_array_array, element_), is legal and generated',
    'unicode="ascii" with a non-ASCII string anywhere in the reachable graph must raise UnicodeEncodeError; '
    'unicode="silent" output is parsed with unicode=True as documented',
    'cull_uuid (nested layout): UUIDs of elements referenced at most once and not the root are not compared',
    'KV1 bridge: C01 tree domain (names without CR/LF, string leaves)',
    'pure-Python tokenizer only (no Cython build possible in this sandbox)',
]
TECHNIQUE = ('property-based testing (Hypothesis): round trip against a descriptor-derived canonical graph, an '
             'independent binary decoder, and a shape oracle for the KeyValues1 bridge')
LEVEL_TEXT = ('Generated-input search: random element graphs (sharing, cycles, stubs, NULLs, all 14 value types as scalar '
              'and array) are exported in every binary version and both text layouts under the three unicode modes, parsed '
              'back and compared with a canonical graph computed from the descriptor alone; the binary bytes are also '
              'decoded by an independent decoder. Held-on-everything-explored, not a proof.')
LEVEL_NOTE = ('Trusts Hypothesis, the harness canonical walker/decoder (written from the format description) and the public '
              'Element/Attribute constructors used to build the graph; pure-Python tokenizer only.')
CAPS = (300, 2400)

MODES = ['ascii', 'format', 'silent']
TEXT_TOL = 5.00001e-7   # half a unit of the 6th decimal (ties included) plus float noise of the subtraction
FMT_NAMES = ['dmx', 'pcf', 'model', 'sfm_session', 'x']


def _common(tier: str, nul: bool = False):
    big = tier != 'quick'
    return {
        # quick: smaller graphs (generation dominates the cost); thorough: the full 12-element domain.
        'graph': dmxgen.graph_descs(max_elems=12 if big else 8, max_attrs=7 if big else 5,
                                    max_array=6 if big else 4, nul=nul),
        'mode': st.sampled_from(MODES + ['format', 'silent']),
        'parse_unicode': st.booleans(),
        'fmt': st.tuples(st.sampled_from(FMT_NAMES), st.integers(0, 99)).map(list),
    }


def strategy_binary(tier: str):
    return st.fixed_dictionaries(_common(tier))


def strategy_kv2(tier: str):
    # The text encoding can express NUL characters (the binary one, with NUL-terminated strings, cannot).
    return st.fixed_dictionaries(_common(tier, nul=True))


def strategy_decoder(tier: str):
    d = _common(tier)
    del d['parse_unicode']
    d['version'] = st.sampled_from([5, 5, 5, 4, 3, 2, 1])
    return st.fixed_dictionaries(d)


def _classify(ctx, facts: dict) -> None:
    for key in ('shared', 'cycle', 'self_ref', 'array', 'empty_array', 'stub', 'stub_in_array', 'null',
                'null_in_array', 'non_ascii', 'has_time', 'signed_zeros'):
        if facts[key]:
            ctx.label(key)
    if facts['name_removed_with_attrs']:
        ctx.label('elem:name_removed')
    ctx.label(*[f'name_removed:{how}' for how in sorted(facts['name_removed'])])
    ctx.label(*[f'edit:{kind}' for kind in sorted(facts['edits'])])
    ctx.nontrivial(facts['elements'] >= 2 and (facts['shared'] or facts['cycle']) and facts['array'])


def _cells(ctx, facts: dict, enc: str) -> None:
    ctx.label(*[f'{vt}:{"a" if arr else "s"}:{enc}' for vt, arr in sorted(facts['cells'])])


def _annotate(exc: BaseException, note: str) -> None:
    # Not a handler: the exception is re-raised unchanged, only labelled with the configuration it occurred in.
    exc.add_note('C14 configuration: ' + note)


def _prepare(desc, ctx):
    """Expected canonical graph, the live graph, and the build sanity clause."""
    want = dmxgen.canon_desc(desc['graph'])
    facts = dmxgen.graph_facts(want)
    root = dmxgen.build_graph(desc['graph'])
    built = dmxgen.canon_graph(root)
    diff = dmxgen.canon_diff(want, built)
    ctx.check(diff is None, 'build', f'graph built through the public API differs from the descriptor: {diff}')
    _classify(ctx, facts)
    ctx.label('mode:' + desc['mode'])
    return want, facts, root


def _parse(ctx, data: bytes, desc, cfg: str):
    from srctools.dmx import Element
    unicode = desc['mode'] == 'silent' or (desc['mode'] == 'format' and desc['parse_unicode'])
    try:
        parsed, fmt_name, fmt_ver = Element.parse(io.BytesIO(data), unicode=unicode)
    except Exception as exc:
        _annotate(exc, f'{cfg}, parse(unicode={unicode}) of {data[:600]!r}')
        raise
    ctx.check([fmt_name, fmt_ver] == desc['fmt'], 'header',
              f'{cfg}: format name/version {desc["fmt"]} came back as {[fmt_name, fmt_ver]}')
    return parsed


def _expect_ascii_error(ctx, export, cfg: str) -> None:
    """unicode='ascii' and a non-ASCII string in the graph: the documented outcome is UnicodeEncodeError."""
    buf = io.BytesIO()
    try:
        export(buf)
    except UnicodeEncodeError:
        ctx.label('ascii_rejected')
        return
    except ValueError as exc:
        if 'TIME' in str(exc):   # TIME before v3 is reported first: also "cannot express"
            ctx.label('time_rejected')
            return
        raise
    ctx.fail('ascii_mode', f'{cfg}: non-ASCII text was written in unicode="ascii" mode without an error: '
                           f'{buf.getvalue()[:400]!r}')


def execute_binary(desc, ctx):
    want, facts, root = _prepare(desc, ctx)
    mode = desc['mode']
    for version in (1, 2, 3, 4, 5):
        cfg = f'binary v{version} unicode={mode}'

        def export(buf, version=version):
            root.export_binary(buf, version, desc['fmt'][0], desc['fmt'][1], unicode=mode)

        if mode == 'ascii' and facts['non_ascii']:
            _expect_ascii_error(ctx, export, cfg)
            continue
        buf = io.BytesIO()
        if facts['has_time'] and version < 3:
            # Pre: the version cannot express TIME; the documented outcome is ValueError.
            try:
                export(buf)
            except ValueError as exc:
                ctx.check('TIME' in str(exc), 'time_rejected', f'{cfg}: unexpected ValueError {exc}')
                ctx.label('time_rejected')
                continue
            ctx.fail('time_rejected', f'{cfg}: a TIME attribute was written into a version < 3 stream')
            continue
        try:
            export(buf)
        except Exception as exc:
            _annotate(exc, cfg + ' export')
            raise
        data = buf.getvalue()
        parsed = _parse(ctx, data, desc, cfg)
        got = dmxgen.canon_graph(parsed)
        diff = dmxgen.canon_diff(want, got)
        ctx.check(diff is None, 'graph', f'{cfg}: parse(export(g)) is not isomorphic to g: {diff}\n bytes={data[:800]!r}',
                  version=version, mode=mode)
        _cells(ctx, facts, f'bin{version}')
    after = dmxgen.canon_graph(root)
    ctx.check(dmxgen.canon_diff(want, after) is None, 'no_mutation', 'export_binary() changed the graph')


def execute_kv2(desc, ctx):
    want, facts, root = _prepare(desc, ctx)
    mode = desc['mode']
    indeg = facts['indegree']
    unshared = frozenset(i for i in range(1, len(indeg)) if indeg[i] <= 1)
    for flat in (False, True):
        for cull in (False, True):
            cfg = f'keyvalues2 flat={flat} cull_uuid={cull} unicode={mode}'

            def export(buf, flat=flat, cull=cull):
                root.export_kv2(buf, desc['fmt'][0], desc['fmt'][1], flat=flat, unicode=mode, cull_uuid=cull)

            if mode == 'ascii' and facts['non_ascii']:
                _expect_ascii_error(ctx, export, cfg)
                continue
            buf = io.BytesIO()
            try:
                export(buf)
            except Exception as exc:
                _annotate(exc, cfg + ' export')
                raise
            data = buf.getvalue()
            parsed = _parse(ctx, data, desc, cfg)
            got = dmxgen.canon_graph(parsed)
            diff = dmxgen.canon_diff(want, got, float_tol=TEXT_TOL,
                                     uuid_free=unshared if (cull and not flat) else frozenset())
            ctx.check(diff is None, 'graph',
                      f'{cfg}: parse(export(g)) is not isomorphic to g: {diff}\n text={data[:1500]!r}',
                      flat=flat, cull_uuid=cull, mode=mode)
            _cells(ctx, facts, 'kv2f' if flat else 'kv2n')
            if cull and not flat and unshared:
                ctx.label('cull_uuid_dropped')
            if not flat and not cull and facts['fold_name_inline']:
                ctx.label('fold_name_inline')
            if not flat and not cull and facts['array_suffix_type_inline']:
                ctx.label('array_suffix_type_inline')
    after = dmxgen.canon_graph(root)
    ctx.check(dmxgen.canon_diff(want, after) is None, 'no_mutation', 'export_kv2() changed the graph')


def execute_decoder(desc, ctx):
    want, facts, root = _prepare(desc, ctx)
    mode, version = desc['mode'], desc['version']
    cfg = f'binary v{version} unicode={mode}'
    ctx.label(f'v{version}')
    if (mode == 'ascii' and facts['non_ascii']) or (facts['has_time'] and version < 3):
        ctx.is_nontrivial = False   # nothing is written for this configuration (checked in the binary sub-check)
        ctx.label('not_expressible')
        return
    buf = io.BytesIO()
    try:
        root.export_binary(buf, version, desc['fmt'][0], desc['fmt'][1], unicode=mode)
    except Exception as exc:
        _annotate(exc, cfg + ' export')
        raise
    data = buf.getvalue()
    try:
        dec = dmxgen.decode_binary(data, 'ascii' if mode == 'ascii' else 'utf8')
    except dmxgen.DecodeError as exc:
        ctx.fail('wellformed', f'{cfg}: the written stream is not well-formed binary DMX: {exc}\n bytes={data[:800]!r}',
                 version=version, mode=mode)
        return
    ctx.check(dec['version'] == version and [dec['fmt_name'], dec['fmt_ver']] == desc['fmt']
              and dec['unicode_flag'] == (mode == 'format'), 'header',
              f'{cfg}: header says version={dec["version"]} unicode_flag={dec["unicode_flag"]} '
              f'format={dec["fmt_name"]} {dec["fmt_ver"]}')
    ctx.check(dec['trailing'] == 0, 'wellformed', f'{cfg}: {dec["trailing"]} bytes follow the last attribute')
    if dec['strings'] is not None:
        ctx.check(len(set(dec['strings'])) == len(dec['strings']), 'wellformed',
                  f'{cfg}: duplicate entries in the string table {dec["strings"]!r}')
    for ed in dec['elems']:
        names = [a[0].casefold() for a in ed['attrs']]
        ctx.check('name' not in names and len(set(names)) == len(names), 'wellformed',
                  f'{cfg}: element {ed["name"]!r} has attribute records {names!r}')
    got = dmxgen.canon_desc(dec)
    diff = dmxgen.canon_diff(want, got)
    ctx.check(diff is None, 'decoded_graph',
              f'{cfg}: the bytes written do not encode the graph (independent decoder): {diff}\n bytes={data[:800]!r}',
              version=version, mode=mode)
    _cells(ctx, facts, f'bin{version}')


# ---------------------------------------------------------------------------------------------------------- KV1 bridge

KV1_NAMES = ['name', 'Name', 'subkeys', 'SubKeys', 'value', 'id', 'a', 'A', '']


def strategy_kv1(tier: str):
    # C01's tree shape, with the names the bridge treats specially (and case-insensitive duplicates) made likely.
    name = st.one_of(gens.kv_name(), st.sampled_from(KV1_NAMES))
    leaf = st.tuples(name, gens.kv_value()).map(list)
    node = st.recursive(
        leaf, lambda children: st.tuples(name, st.lists(children, max_size=6)).map(list),
        max_leaves=25 if tier == 'quick' else 50,
    )
    return st.fixed_dictionaries({
        'tree': st.lists(node, max_size=5),
        'as_root': st.booleans(),
    })


def _kv1_tree(desc):
    from srctools.keyvalues import Keyvalues
    nodes = [c01.build(n) for n in desc['tree']]
    if desc['as_root'] or len(nodes) != 1:
        return Keyvalues.root(*nodes), True
    return nodes[0], False


def _kv1_shape(kv, is_root):
    return ['<root>', [c01.shape(c) for c in kv]] if is_root else c01.shape(kv)


def _kv1_classify(desc, ctx):
    stats = {'block': False, 'leaf': False, 'dup_leaf': False, 'reserved_leaf': False, 'mixed': False, 'empty_block': False}

    def visit(children):
        names = [n.casefold() for n, v in children if not isinstance(v, list)]
        if names:
            stats['leaf'] = True
        if len(set(names)) != len(names):
            stats['dup_leaf'] = True
        if any(n in ('name', 'subkeys') for n in names):
            stats['reserved_leaf'] = True
        blocks = [v for n, v in children if isinstance(v, list)]
        if blocks:
            stats['block'] = True
            if names:
                stats['mixed'] = True
        for b in blocks:
            if not b:
                stats['empty_block'] = True
            visit(b)
    visit(desc['tree'])
    for k, v in stats.items():
        if v:
            ctx.label(k)
    ctx.label('root' if (desc['as_root'] or len(desc['tree']) != 1) else 'single')
    ctx.nontrivial(stats['block'] and stats['leaf'])


def execute_kv1(desc, ctx):
    from srctools.dmx import Element
    kv, is_root = _kv1_tree(desc)
    _kv1_classify(desc, ctx)
    want = _kv1_shape(kv, is_root)
    elem = Element.from_kv1(kv)
    ctx.check(_kv1_shape(kv, is_root) == want, 'no_mutation', 'from_kv1() changed the Keyvalues tree')
    back = elem.to_kv1()
    ctx.check(back.is_root() == is_root, 'kv1_root', f'is_root() {is_root} became {back.is_root()}')
    got = _kv1_shape(back, is_root)
    ctx.check(got == want, 'kv1_shape', f'to_kv1(from_kv1(t)) differs\n want={want!r}\n got ={got!r}\n elem={elem!r}')


def execute_kv1_export(desc, ctx):
    """The bridge composed with the encodings ("allowing nesting inside a DMX file")."""
    from srctools.dmx import Element
    kv, is_root = _kv1_tree(desc)
    _kv1_classify(desc, ctx)
    want = _kv1_shape(kv, is_root)
    text = []
    c01.walk(desc['tree'], lambda s, is_block, is_name: text.append(s))
    if any('\x00' in s for s in text):
        ctx.is_nontrivial = False
        ctx.label('nul_skipped')      # NUL cannot be expressed by the encodings' string fields
        return
    elem = Element.from_kv1(kv)
    for cfg in ('binary5', 'binary2', 'kv2', 'kv2flat'):
        buf = io.BytesIO()
        try:
            if cfg.startswith('binary'):
                elem.export_binary(buf, int(cfg[-1]), unicode='format')
            else:
                elem.export_kv2(buf, flat=cfg == 'kv2flat', unicode='format', cull_uuid=True)
            parsed, _, _ = Element.parse(io.BytesIO(buf.getvalue()))
        except Exception as exc:
            _annotate(exc, f'kv1 tree through {cfg}: {buf.getvalue()[:600]!r}')
            raise
        got = _kv1_shape(parsed.to_kv1(), is_root)
        ctx.check(got == want, 'kv1_via_' + cfg[:3],
                  f'to_kv1(parse(export_{cfg}(from_kv1(t)))) differs\n want={want!r}\n got ={got!r}\n'
                  f' data={buf.getvalue()[:1000]!r}', cfg=cfg)
        ctx.label('via:' + cfg)


# -------------------------------------------------------------------------------------------------------- big documents

MULTIBYTE = '\u00e9\u00df\u07ff\u0800\u20ac\u4e2d\uffff\U00010000\U0001f600\U0010ffff'   # 2, 3 and 4 byte UTF-8
BIG_CHUNKS = [7, 100, 1000, 4095, 4096, 4097, 8191, 8192, 8193, 16384, 100000]


def strategy_big(tier: str):
    """Small descriptors expanded deterministically into 8-64 KiB documents (see `_big_graph`)."""
    unit = st.tuples(
        st.text(st.characters(exclude_categories=['Cs'], exclude_characters='\x00'), max_size=6),
        st.text(MULTIBYTE, min_size=1, max_size=4),
        st.text('ab "\\\n', max_size=2),
    ).map(''.join)

    def with_repeat(pair):
        unit, base = pair
        return unit, -(-base // len(unit.encode('utf8')))

    sized = st.tuples(unit, st.integers(8300, 21000)).map(with_repeat)
    return st.tuples(
        sized, st.integers(0, 7), st.integers(0, 4), st.integers(0, 2), st.booleans(),
        st.sampled_from(['format', 'silent']), st.sampled_from(BIG_CHUNKS), st.integers(7, 20000), st.booleans(),
    ).map(lambda t: {
        'unit': t[0][0], 'repeat': t[0][1], 'pad': t[1], 'pieces': t[2], 'kids': t[3], 'flat': t[4], 'mode': t[5],
        'chunk': t[6] if t[8] else t[7],
    })


def _big_graph(desc) -> dict:
    """unit*repeat is 8.3-21 KiB of UTF-8; with the array pieces and child elements the export is 8-64 KiB.
    The ASCII pad in the first attribute shifts everything behind it, so across cases the multi-byte characters
    take every alignment relative to the 4096/8192/16384-byte block boundaries."""
    unit, rep = desc['unit'], desc['repeat']
    elems = [{
        'type': 'DmElement', 'name': 'root', 'uuid': f'{1:032x}',
        'attrs': [
            ['pad', 'string', False, 'p' * desc['pad']],
            ['big', 'string', False, unit * rep],
            ['pieces', 'string', True, [unit * (rep // 4 + i) for i in range(desc['pieces'])]],
            ['kids', 'element', True, [['e', k + 1] for k in range(desc['kids'])] + [['e', 0]]],
        ],
    }]
    for k in range(desc['kids']):
        elems.append({
            'type': 'Dm' + unit[:3].replace('\n', ''), 'name': unit * (k + 1), 'uuid': f'{k + 2:032x}',
            'attrs': [[unit[:6] + 'K', 'string', False, unit * (rep // 2)], ['n', 'int', False, k]],
        })
    if any(dmxgen.type_is_kv2_keyword(e['type']) for e in elems):
        for e in elems[1:]:
            e['type'] = 'Dm'
    return {'elems': elems}


class ShortReadFile(io.BytesIO):
    """A binary file whose read calls return at most ``chunk`` bytes at a time (legal for any stream; the text
    layer has to cope with characters split between two reads)."""
    def __init__(self, data: bytes, chunk: int) -> None:
        super().__init__(data)
        self.chunk = chunk

    def read(self, size=-1):
        if size is None or size < 0 or size > self.chunk:
            size = self.chunk
        return super().read(size)

    read1 = read

    def readinto(self, buf):
        data = self.read(len(buf))
        buf[:len(data)] = data
        return len(data)

    readinto1 = readinto


def execute_big(desc, ctx):
    from srctools.dmx import Element
    if 'table' in desc:
        return execute_boundary(desc, ctx)
    graph = _big_graph(desc)
    want = dmxgen.canon_desc(graph)
    root = dmxgen.build_graph(graph)
    mode = desc['mode']
    unicode = mode == 'silent'
    sizes = []

    def roundtrip(cfg, data, enc):
        sizes.append(len(data))
        for how in ('bytesio', 'short'):
            if how == 'short' and not cfg.startswith('keyvalues2'):
                continue   # the binary parser issues exact-size reads; partial reads are only meaningful for text
            file = io.BytesIO(data) if how == 'bytesio' else ShortReadFile(data, desc['chunk'])
            try:
                parsed, _, _ = Element.parse(file, unicode=unicode)
            except Exception as exc:
                _annotate(exc, f'{cfg}, {len(data)} bytes, read via {how} (chunk {desc["chunk"]})')
                raise
            diff = dmxgen.canon_diff(want, dmxgen.canon_graph(parsed), float_tol=TEXT_TOL if enc == 'kv2' else 0.0)
            ctx.check(diff is None, 'graph', f'{cfg} ({len(data)} bytes, read via {how}, chunk {desc["chunk"]}): '
                      f'parse(export(g)) is not isomorphic to g: {str(diff)[:600]}', cfg=cfg, how=how)
        ctx.label(f'{enc}:{mode}')

    buf = io.BytesIO()
    root.export_kv2(buf, flat=desc['flat'], unicode=mode)
    roundtrip(f'keyvalues2 flat={desc["flat"]} unicode={mode}', buf.getvalue(), 'kv2f' if desc['flat'] else 'kv2n')
    for version in (2, 5):
        buf = io.BytesIO()
        root.export_binary(buf, version, unicode=mode)
        roundtrip(f'binary v{version} unicode={mode}', buf.getvalue(), f'bin{version}')
    data_len = sizes[0]
    ctx.nontrivial(data_len > 8192 and any(ord(c) > 127 for c in desc['unit']))
    ctx.label('size:' + ('8-16K' if data_len < 16384 else '16-32K' if data_len < 32768 else '32K+'))
    ctx.label(f'pad:{desc["pad"]}')
    ctx.label('chunk:small' if desc['chunk'] < 4096 else 'chunk:block' if desc['chunk'] in (4096, 8192, 16384)
              else 'chunk:other')
    width = {len(c.encode('utf8')) for c in desc['unit']}
    ctx.label(*[f'utf8:{w}' for w in sorted(width)])


# ------------------------------------------------------------------------------------- size boundaries of the binary wire

# What the binary encoding versions can hold (from the format: v2/v3 write the string-table *count* as int16; v4 writes
# a 32-bit count but 16-bit *indexes*, so indexes 0..32767 = 32768 strings; v5 is 32-bit throughout).
TABLE_LIMIT = {2: 0x7FFF, 3: 0x7FFF, 4: 0x8000, 5: 2 ** 31 - 1}


def fixed_boundaries(tier: str):
    """A handful of graphs built by construction to sit on the size boundaries of the binary encodings."""
    cases = [
        {'table': {'kind': 'attrs', 'strings': 0x7FFF, 'versions': [2, 3, 4]}},
        {'table': {'kind': 'attrs', 'strings': 0x8000, 'versions': [2, 3, 4, 5]}},
        {'table': {'kind': 'attrs', 'strings': 0x8001, 'versions': [4, 5]}},
        {'table': {'kind': 'values', 'strings': 0x8000, 'versions': [4, 5]}},
        {'table': {'kind': 'attrs', 'strings': 0x10000, 'versions': [5]}},
        {'table': {'kind': 'counts', 'children': 255, 'arrays': [255, 256, 65535, 65536], 'versions': [1, 2, 3, 4, 5]}},
        {'table': {'kind': 'counts', 'children': 256, 'arrays': [], 'versions': [1, 5]}},
    ]
    if tier != 'quick':
        cases += [
            {'table': {'kind': 'attrs', 'strings': 0xFFFF, 'versions': [5]}},
            {'table': {'kind': 'attrs', 'strings': 0x10001, 'versions': [4, 5]}},
            {'table': {'kind': 'values', 'strings': 0x8001, 'versions': [4, 5]}},
            {'table': {'kind': 'values', 'strings': 0x7FFF, 'versions': [4]}},
            {'table': {'kind': 'counts', 'children': 65535, 'arrays': [], 'versions': [2, 5]}},
            {'table': {'kind': 'counts', 'children': 65536, 'arrays': [], 'versions': [4, 5]}},
        ]
    return cases


def _boundary_graph(spec) -> dict:
    """kind 'attrs': one element (type == name == 'T', so the table is the same in every version >= 2) with
    ``strings - 2`` int attributes named by counter ('z…', sorting after "name", so the highest table index is really
    referenced) -> table = {"name", "T"} + the attribute names.
    kind 'values' (v4+, where scalar string values live in the table too): attributes with distinct string values.
    kind 'counts': ``children`` child elements in one element array and int arrays of the given lengths."""
    def elem(i, etype, name, attrs):
        return {'type': etype, 'name': name, 'uuid': f'{i + 1:032x}', 'attrs': attrs}

    if spec['kind'] == 'attrs':
        return {'elems': [elem(0, 'T', 'T', [[f'z{i:05d}', 'int', False, i] for i in range(spec['strings'] - 2)])]}
    if spec['kind'] == 'values':
        n = spec['strings'] - 2
        attrs = [[f'A{i:05d}', 'string', False, f'v{i:05d}'] for i in range(n // 2)]
        if n % 2:
            attrs.append(['odd', 'bool', False, True])
        return {'elems': [elem(0, 'T', 'T', attrs)]}
    kids = spec['children']
    attrs = [['kids', 'element', True, [['e', i + 1] for i in range(kids)]]]
    attrs += [[f'ints{n}', 'int', True, list(range(n))] for n in spec['arrays']]
    return {'elems': [elem(0, 'T', 'T', attrs)] + [elem(i + 1, 'C', f'c{i % 7}', [['i', 'int', False, i]])
                                                    for i in range(kids)]}


def _expected_table(want: dict, version: int) -> set:
    """Own model of which strings a version keeps in its table (format description, not export_binary)."""
    table = {'name'}
    for node in want['nodes']:
        table.add(node['type'])
        if version >= 4:
            table.add(node['name'])
        for nm, vt, is_arr, val in node['attrs']:
            table.add(nm)
            if version >= 4 and vt == 'string' and not is_arr:
                table.add(val)
    return table


def execute_boundary(desc, ctx):
    import struct
    spec = desc['table']
    graph = _boundary_graph(spec)
    want = dmxgen.canon_desc(graph)
    root = dmxgen.build_graph(graph)
    ctx.nontrivial(True)
    for version in spec['versions']:
        n_strings = len(_expected_table(want, version)) if version >= 2 else 0
        if spec['kind'] != 'counts':
            ctx.check(n_strings == spec['strings'], 'harness_table_model',
                      f'boundary graph has {n_strings} table strings for v{version}, wanted {spec["strings"]}')
        cfg = (f'binary v{version}, {n_strings} distinct table strings, {len(want["nodes"])} elements '
               f'({spec["kind"]})')
        fits = version < 2 or n_strings <= TABLE_LIMIT[version]
        buf = io.BytesIO()
        if not fits:
            # Pre: the version cannot express the data.  A refusal (the unchanged tree: struct.error from packing the
            # int16 count / index) is accepted; writing a file that does not read back as the graph is not.
            try:
                root.export_binary(buf, version)
            except (struct.error, ValueError, OverflowError):
                ctx.label(f'table:v{version}:{n_strings}:refused')
                continue
        else:
            try:
                root.export_binary(buf, version)
            except Exception as exc:
                _annotate(exc, cfg + ' export (the format can hold this)')
                raise
        data = buf.getvalue()
        try:
            dec = dmxgen.decode_binary(data, 'ascii')
        except dmxgen.DecodeError as exc:
            ctx.fail('wellformed', f'{cfg}: the written stream is not well-formed binary DMX: {exc}', version=version)
            continue
        if version >= 2:
            ctx.check(len(dec['strings']) == n_strings and set(dec['strings']) == _expected_table(want, version),
                      'table_size', f'{cfg}: the file has a table of {len(dec["strings"])} strings')
        ctx.check(dec['trailing'] == 0, 'wellformed', f'{cfg}: {dec["trailing"]} bytes follow the last attribute')
        diff = dmxgen.canon_diff(want, dmxgen.canon_desc(dec))
        ctx.check(diff is None, 'decoded_graph', f'{cfg}: the bytes written do not encode the graph: {str(diff)[:500]}',
                  version=version)
        try:
            parsed, _, _ = Element_parse(data)
        except Exception as exc:
            _annotate(exc, cfg + ' parse')
            raise
        diff = dmxgen.canon_diff(want, dmxgen.canon_graph(parsed))
        ctx.check(diff is None, 'graph', f'{cfg}: parse(export(g)) is not isomorphic to g: {str(diff)[:500]}',
                  version=version)
        if spec['kind'] == 'counts':
            ctx.label(f'elements:{len(want["nodes"])}', *[f'array_len:{n}' for n in spec['arrays']])
        else:
            ctx.label(f'table:v{version}:{n_strings}:{spec["kind"]}')


def Element_parse(data: bytes):
    from srctools.dmx import Element
    return Element.parse(io.BytesIO(data))


# ------------------------------------------------------------------------------------------------------------ sub-checks

def _cells_must(encs, skip=()):
    return tuple(
        f'{vt}:{shape}:{enc}'
        for enc in encs for vt in dmxgen.VTYPES for shape in 'sa'
        if (vt, enc) not in skip
    )


_EDITS = ('elem:name_removed', 'name_removed:del', 'name_removed:pop', 'name_removed:clear', 'name_removed:popitem',
          'edit:readd', 'edit:retype', 'edit:setdefault')
_SHAPES = _EDITS + ('shared', 'cycle', 'self_ref', 'empty_array', 'stub', 'stub_in_array', 'null', 'null_in_array',
           'non_ascii', 'ascii_rejected', 'mode:ascii', 'mode:format', 'mode:silent')

SUBCHECKS = [
    Sub('binary', execute_binary, strategy=strategy_binary, quick=2000, thorough=70000, floor=300, quick_shards=5,
        must_hit=_SHAPES + ('time_rejected', 'signed_zeros') + _cells_must(
            ['bin1', 'bin2', 'bin3', 'bin4', 'bin5'], skip={('time', 'bin1'), ('time', 'bin2')})),
    Sub('kv2', execute_kv2, strategy=strategy_kv2, quick=800, thorough=40000, floor=100, quick_shards=4,
        must_hit=_SHAPES + ('cull_uuid_dropped', 'fold_name_inline', 'array_suffix_type_inline') + _cells_must(['kv2n', 'kv2f'])),
    Sub('binary-decoder', execute_decoder, strategy=strategy_decoder, quick=1500, thorough=50000, floor=200,
        quick_shards=4,
        must_hit=_EDITS + ('signed_zeros', 'v1', 'v2', 'v3', 'v4', 'v5', 'stub', 'stub_in_array', 'null_in_array', 'non_ascii')
        + _cells_must(['bin5'])),
    Sub('kv1-bridge', execute_kv1, strategy=strategy_kv1, quick=1200, thorough=100000, floor=100, quick_shards=2,
        must_hit=('block', 'leaf', 'dup_leaf', 'reserved_leaf', 'mixed', 'empty_block', 'root', 'single')),
    Sub('kv1-export', execute_kv1_export, strategy=strategy_kv1, quick=400, thorough=20000, floor=20, quick_shards=1,
        must_hit=('via:binary5', 'via:kv2', 'mixed', 'dup_leaf')),
]

SUBCHECKS.append(
    Sub('big_documents', execute_big, strategy=strategy_big, fixed=fixed_boundaries, quick=400, thorough=6000,
        floor=100, quick_shards=2,
        must_hit=('table:v2:32767:attrs', 'table:v3:32767:attrs', 'table:v4:32767:attrs', 'table:v2:32768:refused',
                  'table:v3:32768:refused', 'table:v4:32768:attrs', 'table:v5:32768:attrs', 'table:v4:32769:refused',
                  'table:v5:32769:attrs', 'table:v4:32768:values', 'table:v5:32768:values', 'table:v5:65536:attrs',
                  'elements:256', 'elements:257', 'array_len:255', 'array_len:256', 'array_len:65535',
                  'array_len:65536') + tuple(f'pad:{k}' for k in range(8)) + tuple(
            f'{enc}:{mode}' for enc in ('kv2n', 'kv2f', 'bin2', 'bin5') for mode in ('format', 'silent'))
        + ('utf8:2', 'utf8:3', 'utf8:4', 'size:8-16K', 'size:16-32K', 'size:32K+', 'chunk:small', 'chunk:block')))

MATCHERS = {}
