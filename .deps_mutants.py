"""Dev helper: seed mutants into a copy of the fixed worktree and run the quick tier of the relevant sub-checks."""
import os, shutil, subprocess, sys, json
WT = '/tmp/wt_c10'
MUT = '/tmp/wt_c10/.mut'
MUTANTS = {
 # ---- C10
 'C10-clear-foreign-lump': ('C10', ['synth'], 'src/srctools/bsp.py',
    "        return [\n            Cubemap(Vec(x, y, z), size)",
    "        self.lumps[BSP_LUMPS.LIGHTING].data = b''\n        return [\n            Cubemap(Vec(x, y, z), size)"),
 'C10-drop-gamelump-flags': ('C10', ['synth', 'container'], 'src/srctools/bsp.py',
    "                            game_lump.flags,\n                            game_lump.version,",
    "                            game_lump.flags & 1,\n                            game_lump.version,"),
 'C10-revision-lost': ('C10', ['container'], 'src/srctools/bsp.py',
    "file.write(struct.pack(HEADER_2, self.map_revision))", "file.write(struct.pack(HEADER_2, 0))"),
 'C10-mindist-not-rebuilt': ('C10', ['synth'], 'src/srctools/bsp.py',
    "            min_water_dists.append(leaf.min_water_dist)", "            min_water_dists.append(65535)"),
 'C10-overlay-fades-not-written': ('C10', ['synth'], 'src/srctools/bsp.py',
    "        self.lumps[BSP_LUMPS.OVERLAY_FADES].data = fade_buf.getvalue()\n", ""),
 'C10-lump-version-l4d2': ('C10', ['container'], 'src/srctools/bsp.py',
    "                        defer.set_data(lump_name, lump.version, file.tell(), len(lump_data), lump_fourcc)",
    "                        defer.set_data(lump_name, 0, file.tell(), len(lump_data), lump_fourcc)"),
 'C10-sample-physcollide-kv': ('C10', ['sample_single'], 'src/srctools/bsp.py',
    "            kvs = phys_buf.read(kv_size).rstrip(b'\\x00').decode('ascii')",
    "            kvs = phys_buf.read(kv_size).rstrip(b'\\x00').decode('ascii').replace('\"mass\"', '\"mass_\"')"),
 'C10-sample-plane-type': ('C10', ['sample_single'], 'src/srctools/bsp.py',
    "                plane.dist,\n                plane.type.value,", "                plane.dist,\n                0,"),
 # ---- C11
 'C11-plane-fields-swapped': ('C11', ['planes'], 'src/srctools/bsp.py',
    "                plane.normal.x, plane.normal.y, plane.normal.z,\n                plane.dist,",
    "                plane.normal.y, plane.normal.x, plane.normal.z,\n                plane.dist,"),
 'C11-rle-255': ('C11', ['visibility'], 'src/srctools/bsp.py',
    "            result.append(min(255, dist))", "            result.append(254 if dist == 255 else min(255, dist))"),
 'C11-xbox-flag-dropped': ('C11', ['props'], 'src/srctools/bsp.py',
    "prop_lump.write(struct.pack('<?xxx', prop.disable_on_xbox))", "prop_lump.write(struct.pack('<?xxx', False))"),
 'C11-detail-sway-shape-swapped': ('C11', ['detail'], 'src/srctools/bsp.py',
    "                prop.sway_amount,\n                shape_ang,", "                shape_ang,\n                prop.sway_amount,"),
 'C11-texdata-dedup-by-name': ('C11', ['texinfo'], 'src/srctools/bsp.py',
    "        texdata_ind: dict[TexData, int] = {}", "        texdata_ind: dict[str, int] = {}  # MUT\n        _key = lambda t: t.mat"),
 'C11-dynshadow-inverted': ('C11', ['faces'], 'src/srctools/bsp.py',
    "                if not face.dynamic_shadows:\n                    prim_count |= 0x8000",
    "                if face.dynamic_shadows:\n                    prim_count |= 0x8000"),
 'C11-output-sep-ignored': ('C11', ['ents'], 'src/srctools/bsp.py',
    "                if use_comma_sep is not None:\n                    output.comma_sep = use_comma_sep",
    "                if use_comma_sep:\n                    output.comma_sep = use_comma_sep"),
 'C11-leaf-water-id-lost': ('C11', ['tree'], 'src/srctools/bsp.py',
    "                    brush_ind, len(leaf.brushes),\n                    leaf.water_id)", "                    brush_ind, len(leaf.brushes),\n                    -1)"),
 'C11-overlay-renderorder': ('C11', ['overlays'], 'src/srctools/bsp.py',
    "(over.render_order << 14 | face_cnt)", "((over.render_order & 1) << 14 | face_cnt)"),
 'C11-bmodel-origin-dropped': ('C11', ['bmodels'], 'src/srctools/bsp.py',
    "                model.origin.x, model.origin.y, model.origin.z,\n                add_node(model.node),",
    "                model.origin.x, model.origin.y, model.origin.x,\n                add_node(model.node),"),
}
def run(name):
    prop, subs, rel, old, new = MUTANTS[name]
    shutil.rmtree(MUT, ignore_errors=True)
    os.makedirs(MUT)
    shutil.copytree(os.path.join(WT, 'src'), os.path.join(MUT, 'src'), ignore=shutil.ignore_patterns('__pycache__'))
    os.makedirs(os.path.join(MUT, 'tests'))
    shutil.copytree(os.path.join(WT, 'tests', 'test_vec'), os.path.join(MUT, 'tests', 'test_vec'))
    p = os.path.join(MUT, rel)
    s = open(p).read()
    if name == 'C11-texdata-dedup-by-name':
        s = s.replace("                ind = texdata_ind[tdat]\n", "                ind = texdata_ind[tdat.mat]\n").replace("                ind = texdata_ind[tdat] = next_ind", "                ind = texdata_ind[tdat.mat] = next_ind")
    assert s.count(old) == 1, (name, s.count(old))
    open(p, 'w').write(s.replace(old, new))
    # the repository's own BSP tests against the mutant
    env = dict(os.environ, PYTHONPATH=f'{MUT}/src:/verif/shims', PYTHONDONTWRITEBYTECODE='1')
    r = subprocess.run(['/venv/bin/python', '-m', 'pytest', '-q', '-p', 'no:cacheprovider', 'tests/test_bsp.py', 'tests/test_bsp_staticprops.py',
                        'tests/test_bsp_entities.py'], cwd=WT, env=env, capture_output=True, text=True)
    tests = r.stdout.strip().splitlines()[-1] if r.stdout.strip() else r.stderr[-200:]
    res = []
    for sub in subs:
        env2 = dict(os.environ, VERIF_REPO=MUT)
        r = subprocess.run(['/verif/run.py', prop, '--tier', 'quick', '--procs', '6', '--only', sub], env=env2, capture_output=True, text=True)
        lines = [l for l in r.stdout.splitlines() if l.startswith('---') or l.startswith('VIOLATION') or l.startswith('HARNESS')]
        if any('/fixed-' in l for l in lines):
            # flagged by a curated replay before the search ran: run the generated search alone as well
            env3 = dict(os.environ, VERIF_REPO=MUT, PYTHONPATH=f'{MUT}/src:/verif/shims:/verif', PYTHONHASHSEED='0', PYTHONDONTWRITEBYTECODE='1')
            mod = {'C10': 'c10_bsp_lossless', 'C11': 'c11_bsp_lump_inverse'}[prop]
            r2 = subprocess.run(['/venv/bin/python', '/verif/.deps_triage.py', mod, sub, '150', '1'], env=env3, capture_output=True, text=True)
            lines.append('search-only: ' + ' | '.join(l for l in r2.stdout.splitlines() if l.startswith('==')))
        res.append((sub, r.returncode, lines[:3]))
    shutil.rmtree(MUT, ignore_errors=True)
    print(f'{name}: repo-bsp-tests: {tests} | ' + ' ; '.join(f'{s}: exit {rc} {ln}' for s, rc, ln in res), flush=True)
if __name__ == '__main__':
    for n in (sys.argv[1:] or list(MUTANTS)):
        run(n)
