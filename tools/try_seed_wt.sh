#!/bin/sh
# Usage: try_seed_wt.sh <seed dir> [tier]  -- like try_seed.sh but in a private scratch worktree of /repo HEAD
# (VERIF_REPO=<worktree>), so several can run in parallel and /repo is never touched.
D=$(realpath $1); TIER=${2:-quick}; N=$(basename $D)
PROP=$(python3 -c "import json,sys;print(json.load(open('$D/meta.json'))['property'])")
WT=/tmp/wtt_${N}_$$
git -C /repo worktree add -q --detach $WT HEAD || exit 2
if ! git -C $WT apply "$D/patch.diff" 2>/dev/null; then echo "NEEDS-REBASE $N"; git -C /repo worktree remove --force $WT; exit 2; fi
cd /verif && VERIF_REPO=$WT VERIF_PROCS=${VERIF_PROCS:-8} /venv/bin/python run.py "$PROP" --tier "$TIER" > /verif/.scratch/try_$N.out 2>&1; rc=$?
git -C /repo worktree remove --force $WT
V=$(grep -h "^VIOLATION" /verif/.scratch/try_$N.out | head -2 | tr '\n' ' ')
if [ $rc -eq 1 ]; then echo "CAUGHT $N ($PROP $TIER) $V"; elif [ $rc -eq 0 ]; then echo "MISSED $N ($PROP $TIER)"; else echo "HARNESS-ERROR rc=$rc $N"; tail -3 /verif/.scratch/try_$N.out; fi
