import json, sys
from vlib import bspgen as G
def write(prop, sub, slug, desc, clause='', message=''):
    path = f'/verif/replays/{prop}/fixed-{slug}.json'
    json.dump({'property': prop, 'subcheck': sub, 'clause': clause, 'message': message, 'desc': desc}, open(path, 'w'), indent=1)
    print(path)
if __name__ == '__main__':
    w = G.raw_skeleton('v20')
    w['water'] = [[1.0, 0.0, 0]]
    write('C10', 'synth', 'water-leaf-info-emptied', {'world': w, 'access': ['water_leaf_info'], 'cycles': 1},
          'emptied', 'lump LEAFWATERDATA had 12 bytes and is empty after save')
    FACE = {'plane': 0, 'side': 0, 'onnode': 0, 'fe': 0, 'ne': 0, 'ti': 0, 'disp': -1, 'fog': -1, 'styles': '00ffffff',
            'lofs': 0, 'area': 1.0, 'lm': [0, 0, 0, 0], 'orig': 0, 'np': 0, 'fp': 0, 'nodyn': False, 'smooth': 0,
            'hid': 5, 'vflags': 0}
    w = G.raw_skeleton('v20')
    w['ofaces'] = [dict(FACE)]; w['faces'] = [dict(FACE)]; w['faceids_mode'] = 'none'
    write('C10', 'synth', 'faceids-invented', {'world': w, 'access': ['faces'], 'cycles': 1},
          'parsed_content', 'Face.hammer_id None != 0; FACEIDS lump created')
    DP = {'type': 2, 'model': 'models/a.mdl', 'sprite': [0.0, 1.0, 1.0, 0.0, 0.0, 0.0, 1.0, 1.0], 'origin': [0.0, 0.0, 0.0],
          'angles': [0.0, 0.0, 0.0], 'leaf': 0, 'lighting': [1, 2, 3, 4], 'styles': 0, 'style_count': 0, 'sway': 0,
          'shape_angle': 30, 'shape_size': 8, 'orient': 0, 'scale': 1.0}
    w = G.raw_skeleton('v20')
    w['dprp'] = {'ver': 4, 'props': [DP], 'flags': 0}
    write('C10', 'synth', 'detail-shape-as-sprite', {'world': w, 'access': ['detail_props'], 'cycles': 1},
          'parsed_content', "'DetailPropShape' != 'DetailPropSprite'")
