import time, cProfile, pstats, sys
from hypothesis import given, settings, HealthCheck, seed, Phase
from vlib import bspgen as G
from vlib import core
import checks.c10_bsp_lossless as C
strat = C.strat_synth('quick')
descs=[]
@seed(5)
@settings(max_examples=60, database=None, deadline=None, suppress_health_check=list(HealthCheck), phases=[Phase.generate])
@given(strat)
def t(d): descs.append(d)
t0=time.time(); t(); print('gen', time.time()-t0, len(descs))
class S: 
    tier='quick'; open_known=[]; matchers={}; sub=None
pr=cProfile.Profile()
t0=time.time()
n=0
pr.enable()
for d in descs:
    ctx=core.Ctx(S(), d)
    try: C.execute_synth(d, ctx); 
    except core.Violation as v: n+=1
pr.disable()
print('exec', time.time()-t0, 'viol', n)
pstats.Stats(pr).sort_stats('cumulative').print_stats(25)
