import io, os, tempfile, contextlib, traceback
from vlib import bspgen as G
from srctools.bsp import BSP
import checks.c11_bsp_lump_inverse as C11
for what in ['brush','leaf','texinfo']:
    raw = C11.base_raw('v20')
    if what=='brush': raw['brushes'][0][0] = -0x80000000 + 1
    if what=='leaf': raw['leafs'][0]['contents'] = -0x80000000
    if what=='texinfo': raw['texinfo'][0][1] = -0x80000000
    w = G.resolve_world(raw)
    blob = G.build_bsp(w)
    with tempfile.TemporaryDirectory() as td:
        p = os.path.join(td, 'a.bsp'); open(p,'wb').write(blob)
        b = BSP(p)
        try:
            if what=='brush': print(b.brushes[0].contents.value)
            if what=='leaf': print(b.visleafs[0].contents.value)
            if what=='texinfo': print(b.texinfo[0].flags.value)
            with contextlib.redirect_stdout(io.StringIO()): b.save(os.path.join(td,'b.bsp'))
            print(what, 'saved ok')
        except Exception as e:
            print(what, 'EXC', repr(e))
