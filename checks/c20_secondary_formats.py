"""C20 - secondary format writers emit files their own readers reproduce (DESIGN.md section 2, C20).

One part module per format under ``checks/c20parts/`` (cmdseq, choreo, sndscript, vmt, particles, smd);
each exposes ``SUBS`` (list of `Sub`), optional ``MATCHERS`` and ``ASSUMPTIONS``.  This module only
collects them, so a defect in one format never hides the others.
"""
from __future__ import annotations

import glob
import importlib
import os

PROPERTY = 'C20'
LEVEL = 'exploration'
RULE = (
    'per format, Hypothesis generates value descriptors restricted to what the format can represent; each is built '
    'through the public constructors, written, read back and compared by a structural walker, then written again and '
    'required to give identical output; sample files under /repo/tests are fixed inputs; non-trivial = the value uses '
    'at least one optional block / non-default enum; distinct = sha1 of the descriptor JSON'
)
LEVEL_TEXT = ('Generated-input search per secondary format (command sequences, choreo text/binary/scenes.image, soundscripts, '
              'VMT, PCF particles, SMD): write -> read -> structural equality -> second write identical; '
              'held-on-everything-explored, not a proof.')
LEVEL_NOTE = ('Trusts Hypothesis and the harness walkers; values restricted to each format\'s representable alphabet '
              '(see ASSUMPTIONS in evidence); pure-Python code paths only.')
TECHNIQUE = 'property-based testing (Hypothesis): write/read round-trip and second-generation fixed-point oracles per format'

SUBCHECKS = []
MATCHERS = {}
ASSUMPTIONS = []
PARTS = []
for _path in sorted(glob.glob(os.path.join(os.path.dirname(__file__), 'c20parts', '*.py'))):
    _name = os.path.splitext(os.path.basename(_path))[0]
    if _name.startswith('_'):
        continue
    _mod = importlib.import_module('checks.c20parts.' + _name)
    PARTS.append(_name)
    SUBCHECKS.extend(_mod.SUBS)
    MATCHERS.update(getattr(_mod, 'MATCHERS', {}))
    ASSUMPTIONS.extend(f'{_name}: {a}' for a in getattr(_mod, 'ASSUMPTIONS', []))
