"""C01 - KeyValues1 serialise/parse round trip preserves the whole tree (DESIGN.md section 2, C01)."""
from __future__ import annotations

import io

from hypothesis import strategies as st

from vlib.core import Sub
from vlib import gens

PROPERTY = 'C01'
LEVEL = 'exploration'
RULE = (
    "sub-check history: the tree is serialised, edited through the public API (append, rename, edit(), set_key, ...) and "
    "serialised again, optionally after an earlier serialise() in the process failed; sub-check roundtrip: " +
    'Hypothesis generates tree descriptors [name, str | [children]] (depth<=5, width<=6) over an escape-heavy '
    'alphabet plus arbitrary Unicode scalars, optionally with extra siblings whose names are case variants of an existing '
    'sibling (same block), with serialise options and a delivery mode (str / chunk list / file); '
    'non-trivial = the tree has a block and a string that needs escaping; distinct = sha1 of the descriptor JSON'
)
ASSUMPTIONS = [
    'names contain no CR/LF (the statement excludes them; parse() rejects them by default)',
    'leaf values are str; no cyclic trees; the root is made with Keyvalues.root()',
    'pure-Python tokenizer only (no Cython build possible in this sandbox)',
]

INDENTS = ['\t', '', '  ', '\t\t', ' \t']
START_INDENTS = ['', '\t', '    ']


def node_strategy(tier: str):
    name = gens.kv_name()
    value = gens.kv_value()
    max_leaves = 25 if tier == 'quick' else 60
    leaf = st.tuples(name, value).map(list)
    return st.recursive(
        leaf,
        lambda children: st.tuples(name, st.lists(children, max_size=6)).map(list),
        max_leaves=max_leaves,
    )


def options_strategy():
    return st.fixed_dictionaries({
        'indent': st.sampled_from(INDENTS),
        'indent_braces': st.booleans(),
        'start_indent': st.sampled_from(START_INDENTS),
    })


def case_strategy(tier: str):
    return st.fixed_dictionaries({
        'tree': st.lists(node_strategy(tier), max_size=5),
        'opts': options_strategy(),
        'opts2': options_strategy(),
        'delivery': st.sampled_from(['str', 'chunks', 'file', 'lines', 'chars', 'special', 'file_seeked', 'file_after_readline', 'fd_file', 'path_file',
                                     'codecs_file', 'wrapped_binary_file', 'generator', 'iter_only',
                                     'vfs_open_str', 'vfs_bytes_open_str', 'vfs_read_kv1', 'rawfs_open_str', 'rawfs_read_kv1']),
        'cuts': st.lists(st.integers(0, 1 << 16), max_size=8),
        # the same block OBJECT listed again under another block (no cycles): [which block, under which block]
        'share': st.one_of(st.just([]), st.lists(st.tuples(st.integers(0, 63), st.integers(0, 63)).map(list), max_size=3)),
        # siblings whose names differ only in case: [which child list, which child, how the new name is cased, insert position]
        'casevar': st.one_of(st.just([]), st.lists(
            st.tuples(st.integers(0, 63), st.integers(0, 63), st.sampled_from(CASE_KINDS), st.integers(0, 63)).map(list), max_size=3)),
    })


CASE_KINDS = ['upper', 'lower', 'swapcase', 'title', 'casefold']


def _child_lists(nodes, out):
    """Every non-empty child list of the descriptor (the root's first), in document order."""
    if nodes:
        out.append(nodes)
    for _name, value in nodes:
        if isinstance(value, list):
            _child_lists(value, out)
    return out


def add_case_variants(tree, casevar):
    """Descriptor -> descriptor: next to an existing keyvalue, in the SAME block (or the root), put another one whose name is
    the same text in other casing (upper/lower/swapcase/title/casefold; 'Stra\u00dfe' -> 'STRASSE' included).  Names without a
    cased character get a cased suffix first, and then both spellings are inserted."""
    import copy
    tree = copy.deepcopy(tree)
    done = 0
    for which, idx, kind, pos in casevar:
        lists = _child_lists(tree, [])
        if not lists:
            break
        siblings = lists[which % len(lists)]
        name, value = siblings[idx % len(siblings)]
        new = [name]
        if getattr(name, kind)() == name:
            name += ['Key', 'Stra\u00dfe', 'oN\u01c5'][pos % 3]
            new.append(name)
        new.append(getattr(name, kind)())
        if new[-1] == new[-2]:
            new[-1] = name.swapcase()
        for i, nm in enumerate(new[1:]):
            val = value if isinstance(value, str) else ([] if (pos + i) % 2 else [['k', 'v']])
            siblings.insert((pos + i) % (len(siblings) + 1), [nm, copy.deepcopy(val)])
        done += 1
    return tree, done


def build(node):
    from srctools.keyvalues import Keyvalues
    name, value = node
    if isinstance(value, list):
        return Keyvalues(name, [build(c) for c in value])
    return Keyvalues(name, value)


def shape(kv):
    """Independent recursive walk: (real_name, value | [children])."""
    if kv.has_children():
        return [kv.real_name, [shape(c) for c in kv]]
    return [kv.real_name, kv.value]


def _blocks_below(kv):
    """Every block object strictly below kv, in document order (own walk; an object listed twice appears twice)."""
    out = []
    for child in kv:
        if child.has_children():
            out.append(child)
            out.extend(_blocks_below(child))
    return out


def strip_ws_outside_quotes(text: str) -> str:
    """Small quote-aware scanner (not the tokenizer): drop whitespace outside double-quoted strings."""
    out = []
    in_str = False
    i = 0
    n = len(text)
    while i < n:
        c = text[i]
        if in_str:
            out.append(c)
            if c == '\\' and i + 1 < n:
                out.append(text[i + 1])
                i += 1
            elif c == '"':
                in_str = False
        else:
            if c == '"':
                in_str = True
                out.append(c)
            elif c not in ' \t\r\n':
                out.append(c)
        i += 1
    return ''.join(out)


def needs_escape(s: str) -> bool:
    return any(ch in s for ch in '"\\\n\t\r\v\b\f\a\'')


def walk(nodes, fn):
    for name, value in nodes:
        fn(name, isinstance(value, list), True)
        if isinstance(value, list):
            if not value:
                fn('', False, None)
            walk(value, fn)
        else:
            fn(value, False, False)


_CLOSE_LATER: list = []
_UNLINK_LATER: list = []
_RMDIR_LATER: list = []


class _Parsed:
    """A delivery that already went through the library's own parse call (FileSystem.read_kv1)."""
    def __init__(self, tree):
        self.tree = tree


def _cleanup_files():
    import os
    while _CLOSE_LATER:
        _CLOSE_LATER.pop().close()
    while _UNLINK_LATER:
        try:
            os.unlink(_UNLINK_LATER.pop())
        except OSError:
            pass
    while _RMDIR_LATER:
        try:
            os.rmdir(_RMDIR_LATER.pop())
        except OSError:
            pass


def deliver(text: str, mode: str, cuts):
    if mode == 'str':
        return text
    if mode == 'file':
        return io.StringIO(text)
    if mode == 'lines':
        return text.splitlines(keepends=True)
    if mode == 'file_seeked':               # a StringIO holding something else first, positioned at the document
        head = '"Other" "doc"\n"Blk"\n{\n"x" "y"\n}\n'
        buf = io.StringIO(head + text)
        buf.seek(len(head))
        return buf
    if mode == 'file_after_readline':       # a header line was consumed with readline() before parsing
        buf = io.StringIO('// some header that is not keyvalues {\n' + text)
        buf.readline()
        return buf
    if mode in ('fd_file', 'path_file'):    # real file objects (closed by the caller through _CLOSE_LATER)
        import os
        import tempfile
        if mode == 'fd_file':               # descriptor-backed: .name is an int
            f = tempfile.TemporaryFile(mode='w+', encoding='utf8', newline='')
        else:
            fd, path = tempfile.mkstemp(prefix='verif_c01_', suffix='.txt')
            os.close(fd)
            f = open(path, 'w+', encoding='utf8', newline='')
            _UNLINK_LATER.append(path)
        f.write(text)
        f.seek(0)
        _CLOSE_LATER.append(f)
        return f
    if mode in ('codecs_file', 'wrapped_binary_file'):   # other text readers over a file on disk, yielding str
        import codecs
        import os
        import tempfile
        fd, path = tempfile.mkstemp(prefix='verif_c01_', suffix='.txt')
        with os.fdopen(fd, 'wb') as out:
            out.write(text.encode('utf8', 'surrogatepass'))
        _UNLINK_LATER.append(path)
        if mode == 'codecs_file':           # codecs reader: its .mode says 'rb' although it yields str
            f = codecs.open(path, 'r', encoding='utf8', errors='surrogatepass')
        else:
            f = io.TextIOWrapper(open(path, 'rb'), encoding='utf8', errors='surrogatepass', newline='')
        _CLOSE_LATER.append(f)
        return f
    if mode.startswith(('vfs_', 'rawfs_')):
        # The library's own file sources (srctools.filesys): a text file of a VirtualFileSystem whose byte encoding is
        # unrelated to the text (the text is documented to be handed back as it is), the same stored as UTF-8 bytes, and
        # a file in a directory.  "*_read_kv1" returns the parsed tree itself (FileSystem.read_kv1).
        from srctools.filesys import VirtualFileSystem, RawFileSystem
        pick = cuts[0] if cuts else 0
        if mode.startswith('vfs_'):
            enc = ['cp1252', 'latin-1', 'ascii', 'utf-16', 'utf8'][pick % 5]
            data = text.encode('utf8') if mode == 'vfs_bytes_open_str' else text
            fs = VirtualFileSystem({'Scripts/Data.txt': data}, encoding=enc)
            name = ['scripts/data.txt', 'Scripts/Data.txt', 'scripts\\DATA.TXT'][pick % 3]
        else:
            import os
            import tempfile
            folder = tempfile.mkdtemp(prefix='verif_c01_fs_')
            with open(os.path.join(folder, 'data.txt'), 'w', encoding='utf8', newline='') as out:
                out.write(text)
            _UNLINK_LATER.append(os.path.join(folder, 'data.txt'))
            _RMDIR_LATER.append(folder)
            fs = RawFileSystem(folder)
            name = 'data.txt'
        if mode.endswith('read_kv1'):
            return _Parsed(fs.read_kv1(name))
        f = fs[name].open_str() if pick % 2 else fs.open_str(name)
        _CLOSE_LATER.append(f)
        return f
    if mode == 'chars':
        return list(text)
    if mode == 'special':     # a chunk boundary in front of every syntax-relevant character
        pos = [i for i, ch in enumerate(text) if ch in '\ufeff\\"\r\n/{}[]']
    else:
        pos = sorted({c % (len(text) + 1) for c in cuts})
    chunks = []
    last = 0
    for p in pos:
        chunks.append(text[last:p])
        last = p
    chunks.append(text[last:])
    if mode == 'generator':
        return (c for c in chunks)
    if mode == 'iter_only':
        class IterOnly:
            def __iter__(self):
                return iter(chunks)
        return IterOnly()
    return chunks


def execute(desc, ctx):
    try:
        _execute(desc, ctx)
    finally:
        _cleanup_files()


def _execute(desc, ctx):
    from srctools.keyvalues import Keyvalues
    tree = desc['tree']
    if desc.get('casevar'):
        tree, n_var = add_case_variants(tree, desc['casevar'])
        if n_var:
            ctx.label('case_variant_siblings')
    root = Keyvalues.root(*[build(n) for n in tree])
    if desc.get('share'):
        # List an existing block object a second time under another block.  append() does not copy, so the tree then holds
        # the same object twice; it is still a tree without cycles as long as the new parent is not inside the shared block.
        blocks = _blocks_below(root)
        for a, b in desc['share']:
            if not blocks:
                break
            x, y = blocks[a % len(blocks)], ([root] + blocks)[b % (len(blocks) + 1)]
            if y is x or any(sub is y for sub in _blocks_below(x)):
                continue
            y.append(x)
            ctx.label('shared_block_object')
    want = [shape(c) for c in root]
    # classification
    stats = {'block': False, 'esc': False, 'esc_block_name': False, 'empty_block': False, 'unicode': False}

    def visit(s, is_block, is_name):
        if is_name is None:
            stats['empty_block'] = True
            return
        if is_block:
            stats['block'] = True
            if needs_escape(s):
                stats['esc_block_name'] = True
        if needs_escape(s):
            stats['esc'] = True
        if any(ord(ch) > 0x7f for ch in s):
            stats['unicode'] = True
    walk(tree, visit)
    for k, v in stats.items():
        if v:
            ctx.label(k)
    ctx.label('delivery:' + desc['delivery'])
    ctx.nontrivial(stats['block'] and stats['esc'])

    opts = desc['opts']
    text = root.serialise(**opts)
    # (2) serialise never changes the tree
    after = [shape(c) for c in root]
    ctx.check(after == want, 'no_mutation', f'tree changed by serialise(): {want!r} -> {after!r}')
    # writing to a file object gives the same text
    buf = io.StringIO()
    ret = root.serialise(buf, **opts)
    ctx.check(ret is None and buf.getvalue() == text, 'file_vs_str',
              'serialise(file) wrote different text from serialise() -> str')

    # the other spellings of "serialise": serialize(), str(), and the deprecated export() generator
    import warnings
    with warnings.catch_warnings():
        warnings.simplefilter('ignore')
        forms = {'serialize': root.serialize(**opts), 'str': str(root), 'export': ''.join(root.export())}
    for form, ftext in forms.items():
        got = [shape(c) for c in Keyvalues.parse(ftext)]
        if not ctx.check(got == want, 'shape_' + form,
                         f'parse of the text from {form}() differs\n want={want!r}\n got ={got!r}\n text={ftext!r}', form=form):
            return
    after = [shape(c) for c in root]
    ctx.check(after == want, 'no_mutation', f'tree changed by serialize()/str()/export(): {want!r} -> {after!r}')

    # (1)+(4) round trip through the requested delivery and through plain str
    got_plain = None
    for mode in dict.fromkeys(['str', desc['delivery']]):
        source = deliver(text, mode, desc['cuts'])
        parsed = source.tree if isinstance(source, _Parsed) else Keyvalues.parse(source)
        got = [shape(c) for c in parsed]
        if not ctx.check(got == want, 'shape',
                         f'delivery={mode}: parse(serialise(t)) differs\n want={want!r}\n got ={got!r}\n text={text!r}',
                         delivery=mode, block_name_needs_escape=stats['esc_block_name']):
            return
        ctx.check(parsed.real_name is None, 'root_name', 'parsed root has a name')
        if got_plain is None:
            got_plain = got

    # (3) text independent of indentation options, apart from whitespace
    text2 = root.serialise(**desc['opts2'])
    a, b = strip_ws_outside_quotes(text), strip_ws_outside_quotes(text2)
    ctx.check(a == b, 'options_whitespace_only',
              f'option sets {opts} / {desc["opts2"]} differ beyond whitespace:\n {text!r}\n {text2!r}')

    # serialising a sub-block (non-root) round-trips too
    for child in root:
        if child.has_children():
            t = child.serialise(**opts)
            p = Keyvalues.parse(t)
            got = [shape(c) for c in p]
            ctx.check(got == [shape(child)], 'shape_subblock',
                      f'sub-block serialise/parse differs: want={[shape(child)]!r} got={got!r} text={t!r}',
                      block_name_needs_escape=stats['esc_block_name'])
            break


# ----------------------------------------------------------------------------- histories: serialise, edit, serialise again

def history_strategy(tier: str):
    from checks import c09_copies_independent as c09
    return st.fixed_dictionaries({
        'tree': st.lists(node_strategy(tier), min_size=1, max_size=4),
        'opts': options_strategy(),
        'pre_fail': st.sampled_from([None, 'deep', 'nonstr', 'bad_file', 'single_block', 'pushback_abandoned', 'peek_abandoned']),
        'muts': st.lists(c09.kv_mut_strategy(), min_size=1, max_size=6),
        'delivery': st.sampled_from(['str', 'chars', 'file']),
    })


def execute_history(desc, ctx):
    """The tree is serialised once, then edited through the public API, then serialised again: the second text must describe
    the tree as it is now (nothing remembered from the first serialisation), also after an earlier serialise() call in the
    process failed half-way (recursion limit, a non-string leaf, a file object whose write() raises)."""
    from checks import c09_copies_independent as c09
    from srctools.keyvalues import Keyvalues
    root = Keyvalues.root(*[build(n) for n in desc['tree']])
    opts = desc['opts']
    root.serialise(**opts)                    # first serialisation (whatever it may cache)
    pre = desc['pre_fail']
    if pre is not None:
        ctx.label('pre_fail:' + pre)
        try:
            if pre == 'deep':
                deep = cur = Keyvalues('lvl', [])
                for _ in range(3000):
                    nxt = Keyvalues('lvl', [])
                    cur.append(nxt)
                    cur = nxt
                Keyvalues.root(Keyvalues('first', 'x'), deep).serialise()
            elif pre == 'single_block':
                # an earlier, unrelated parse in the same process that returns before its tokenizer reached the end
                Keyvalues.parse('"Name" "Value"', single_block=True)
                Keyvalues.parse('"Blk"\n{\n"a" "b"\n}\n"Other" "x"', single_block=True)
            elif pre == 'pushback_abandoned':
                from srctools.tokenizer import Tokenizer, Token
                tok = Tokenizer('a } "c"')
                tok()
                tok.push_back(Token.BRACE_CLOSE, '}')          # tokenizer dropped with a token still pushed back
                del tok
            elif pre == 'peek_abandoned':
                from srctools.tokenizer import Tokenizer
                tok = Tokenizer('} {')
                tok.peek()
                del tok
            elif pre == 'nonstr':
                Keyvalues.root(Keyvalues('first', 'x'), Keyvalues('bad', 5)).serialise()       # type: ignore[arg-type]
            else:
                class Failing:
                    def __init__(self): self.n = 0
                    def write(self, text):
                        self.n += 1
                        if self.n > 2:
                            raise OSError(28, 'No space left on device')
                Keyvalues.root(Keyvalues('first', 'x'), Keyvalues('blk', [Keyvalues('a', 'b'), Keyvalues('c', 'd')])).serialise(Failing())
        except (RecursionError, TypeError, AttributeError, OSError):
            ctx.label('pre_fail:raised')
    changed = False
    for mut in desc['muts']:
        changed = c09.kv_apply(root, mut, ctx) or changed
        ctx.label('mut:' + mut[0])
        want = [shape(c) for c in root]
        text = root.serialise(**opts)
        got = [shape(c) for c in Keyvalues.parse(deliver(text, desc['delivery'], []))]
        if not ctx.check(got == want, 'shape_after_edit',
                         f'after {mut} (earlier: first serialise(), pre_fail={pre}) the text does not describe the current tree\n'
                         f' want={want!r}\n got ={got!r}\n text={text!r}', mutation=mut[0], pre_fail=pre):
            return
    ctx.nontrivial(changed)


SUBCHECKS = [
    Sub('roundtrip', execute, strategy=case_strategy, quick=4000, thorough=120000, floor=50,
        must_hit=('block', 'esc', 'esc_block_name', 'empty_block', 'unicode',
                  'delivery:chunks', 'delivery:file', 'delivery:lines', 'delivery:chars', 'delivery:special',
                  'delivery:file_seeked', 'delivery:file_after_readline', 'delivery:fd_file', 'delivery:path_file',
                  'delivery:codecs_file', 'delivery:wrapped_binary_file', 'delivery:generator', 'delivery:iter_only',
                  'delivery:vfs_open_str', 'delivery:vfs_bytes_open_str', 'delivery:vfs_read_kv1', 'delivery:rawfs_open_str',
                  'delivery:rawfs_read_kv1',
                  'shared_block_object', 'case_variant_siblings')),
    Sub('history', execute_history, strategy=history_strategy, quick=1200, thorough=40000, floor=50,
        must_hit=('mut:edit_name', 'mut:rename', 'mut:set_value', 'pre_fail:single_block', 'pre_fail:pushback_abandoned', 'pre_fail:deep', 'pre_fail:nonstr', 'pre_fail:bad_file', 'pre_fail:raised')),
]

MATCHERS = {}

LEVEL_TEXT = ('Generated-input search: thousands (quick) to hundreds of thousands (thorough) of random Keyvalues trees over an '
              'escape-heavy alphabet are serialised, parsed back through str/chunks/lines/file delivery and compared with an '
              'independent shape walker; held-on-everything-explored, not a proof.')
LEVEL_NOTE = 'Trusts Hypothesis generation and the harness shape walker; pure-Python tokenizer only; names without CR/LF.'
TECHNIQUE = 'property-based testing (Hypothesis): round-trip + no-mutation + metamorphic option-independence oracles'
