"""Map descriptor generator, builder and independent content walker for srctools.vmf (used by C06, C09, C17).

Three layers, all descriptor based (descriptors are JSON-able: dict/list/str/int/float/bool/None):

* **strategies** (all take a ``GenConfig`` and are cached per config, so call them freely):
  ``map_descs(cfg, preserve_ids=None, min_ents=0, brush_ents=None)``, ``entity_descs(cfg, world=False, brush=None)``,
  ``solid_descs(cfg)``, ``side_descs(cfg, allow_disp=None)``, ``disp_descs(cfg)``, ``vertex_descs(cfg, multiblend)``,
  ``output_descs(cfg)``, ``fixup_descs(cfg)``, ``visgroup_descs(cfg)``, ``group_descs()``, ``camera_descs(cfg)``,
  ``cordon_descs(cfg)``, ``viewport_descs(cfg)``, ``settings_descs(cfg)``; leaves ``coords(cfg)``, ``gnums()``,
  ``exact_floats()``, ``vec3(cfg)``, ``colors()``, ``ids(lo, hi)``, ``any_text(cfg, exclude)``, ``ent_keys(cfg, world)``,
  ``materials(cfg)``, ``fixup_vars(cfg)``.  ``GenConfig`` holds the size limits, the weight of "nasty" strings (quotes,
  backslashes, control characters, arbitrary Unicode) and which optional features are generated (solids / displacements /
  multiblend / Strata extensions / meta blocks / membership ids / duplicate ids / three-digit fixup ids / tiny negatives).
* **builders** - ``build_vmf(desc)``, ``build_entity(vmf, desc, add=False)``, ``build_solid(vmf, desc)``,
  ``build_side(vmf, desc)``, ``build_output(desc)``, ``build_visgroup(vmf, desc)``, ``build_viewport(desc)`` construct the
  srctools objects through the *public* constructors / attributes only.  Missing descriptor fields take the
  constructor defaults, so hand-written descriptors can be short.
* **walker** - ``vmf_content(vmf)`` (and ``entity_content`` / ``solid_content`` / ``side_content`` / ``output_content`` /
  ``visgroup_content``) read a map back into a plain structure through public attributes (never through export/parse),
  numeric leaves tagged by tolerance class; ``normalise_roundtrip(content, minimal, disp_multiblend)`` removes what the
  VMF text format cannot carry; ``diff_content(a, b, ids='exact'|'renumber')`` compares two structures;
  ``renumber_ids(text_or_keyvalues)`` renumbers ids on a parsed Keyvalues tree (independent of vmf.py);
  ``desc_stats(map_desc)`` counts object kinds for histograms.

Generator preconditions (every one is something the text format cannot carry, grounded in vmf.py / VBSP):
see ``PRECONDITIONS``.
"""
from __future__ import annotations

import functools
from dataclasses import dataclass, replace
from typing import Any, Optional

from hypothesis import strategies as st

from vlib import gens

PRECONDITIONS = [
    'entity keys: no CR/LF (KV1 keys cannot carry them); not "id" and not starting with "replace" (case-insensitive: '
    'reserved by the format - VBSP treats every key with that prefix as an instance variable, Entity.parse the numbered ones)',
    'worldspawn: no "classname" (must stay worldspawn) / "mapversion" key (owned by VMF.map_ver, rewritten on export)',
    'output/input names: no CR/LF in the output name (it is a KV1 key), never start with "instance:" unless inst_out/inst_in '
    'is set (in-band marker), no field contains the 0x1b separator; with comma_sep the target, input and inst_in contain no comma',
    'inst_out / inst_in are None or non-empty and contain no ";" (the first ";" ends the instance name)',
    'fixup variable names are non-empty, contain no whitespace and do not start with "$" ("$var value" is split on the first space, '
    'leading "$" are stripped); fixup ids are >= 0 (0..99 unless cfg.fixup_big_ids)',
    'ids given explicitly are >= 1 (<= 0 means "allocate"); duplicate ids only together with preserve_ids',
    'make_prism boxes have non-zero size on every axis (ValueError otherwise, documented)',
    'displacement: multiblend data only on displacements where at least one multi_blend is non-zero (the writer keys the block on that)',
    'Strata2DViewport u/v stay 1e-3 away from +-65536 (in-band axis marker of the file format); exactly four viewports (v0..v3)',
    'format_version is 100 (VMF.parse rejects anything else); quickhide_count >= 0; numbers finite, |x| <= 1e9',
]


@dataclass(frozen=True)
class GenConfig:
    """Size limits and feature switches of the descriptor strategies."""
    max_ents: int = 6
    max_keys: int = 8
    max_outputs: int = 4
    max_fixups: int = 5
    max_world_solids: int = 3
    min_world_solids: int = 0
    max_ent_solids: int = 2
    max_sides: int = 5              # arbitrary (non-prism) solids have 1..max_sides faces
    max_text: int = 10
    nasty: float = 0.2              # weight (0..1, in tenths) of escape-heavy / arbitrary-Unicode strings
    solids: bool = True
    displacements: bool = True
    max_disp_power: int = 2
    disp_weight: float = 0.3        # chance in tenths that an arbitrary side is a displacement
    prism_weight: float = 0.5       # chance in tenths that a solid is a make_prism box (else arbitrary sides)
    multiblend: bool = True
    strata: bool = True             # point_data, viewports, instance visibility
    meta: bool = True               # master switch: visgroups, groups, cameras, cordons, non-default settings
    settings: bool = True           # non-default VMF-level settings (needs meta)
    membership: bool = True         # group ids / visgroup ids on entities and solids
    max_visgroups: int = 3
    max_vis_depth: int = 3
    max_groups: int = 4
    max_cameras: int = 3
    max_cordons: int = 3
    dup_ids: bool = True            # with preserve_ids: explicit ids may repeat
    fixup_big_ids: bool = False     # also fixup ids 100..120 (three-digit replaceNNN keys)
    tiny_negative: bool = True      # numbers in (-5e-7, 0): print as "-0" with the unfixed format_float (C05 finding)
    world_extras: bool = True       # outputs / fixups / comments on worldspawn
    case_variants: bool = True      # strings that are a case variant of an earlier string of the same kind in the map
    nodeid: bool = True             # low-weight "nodeid" keyvalues (VMF.node_id manager)

    def but(self, **kw: Any) -> 'GenConfig':
        return replace(self, **kw)


DEFAULT = GenConfig()

# ---------------------------------------------------------------------------------------------------------------------
# Strategies.  Every factory is cached per (cfg, args): building/validating strategy objects is far more expensive
# than drawing from them, so nothing is constructed inside a composite.
# ---------------------------------------------------------------------------------------------------------------------

_cache = functools.lru_cache(maxsize=None)
BOOL = st.booleans()
TINY = [1e-7, 4.9e-7, 5.1e-7, 1e-9, 2.5e-6, 1e-12]
COMMON_KEYS = ['targetname', 'origin', 'angles', 'spawnflags', 'model', 'file', 'Target', 'rendercolor', 'message']
CLASSNAMES = ['info_target', 'func_detail', 'func_instance', 'logic_relay', 'prop_static', 'trigger_multiple']
PLAIN_CHARS = 'abcdefXYZ_0123 -./'


def _solo(strategy):
    """A distinct single-branch wrapper: one_of() flattens nested one_of branches and drops repeated (identical) strategy
    objects, so weighting by repetition only works with wrappers like this one."""
    return st.tuples(strategy).map(_first)


def _first(t):
    return t[0]


def _pick(*weighted):
    """one_of with integer weights: _pick((3, a), (1, b))."""
    alts = []
    for weight, strategy in weighted:
        alts.extend(_solo(strategy) for _ in range(weight))
    return st.one_of(*alts) if len(alts) > 1 else weighted[0][1]


def _weighted(plain, nasty, weight: float):
    slots = max(0, min(10, int(round(weight * 10))))
    if slots == 0:
        return plain
    return _pick((10 - slots, plain), (slots, nasty))


def _chance(tenths: int):
    """Strategy of bools that is True in about tenths/10 of the draws."""
    tenths = max(0, min(10, tenths))
    return st.sampled_from([True] * tenths + [False] * (10 - tenths))


@_cache
def coords(cfg: GenConfig = DEFAULT):
    """Coordinates / texture axes: written with 6 decimals."""
    tiny = st.sampled_from(TINY + ([-x for x in TINY] if cfg.tiny_negative else []))
    s = st.one_of(
        st.integers(-4096, 4096).map(float),
        st.integers(-4096, 4096).map(float),
        st.integers(-262144, 262144).map(lambda n: n / 8),
        st.floats(-1e4, 1e4, allow_nan=False, allow_infinity=False),
        gens.f32(-1e6, 1e6),
        st.floats(-1e9, 1e9, allow_nan=False, allow_infinity=False),
        tiny,
    )
    if not cfg.tiny_negative:
        s = s.map(lambda x: 0.0 if -5e-7 <= x < 0 else x)
    return s


@_cache
def gnums():
    """Numbers written with '%g' (6 significant digits): rotation, output delay, multiblend Vec4."""
    return st.one_of(
        st.sampled_from([0.0, 1.0, 0.5, 90.0, -45.0, 0.1, 1e-3, 123456.0, 1234567.0, 0.000123456]),
        st.integers(-720, 720).map(float),
        st.floats(-1e9, 1e9, allow_nan=False, allow_infinity=False).map(lambda x: 0.0 if abs(x) < 1e-30 else x),
    )


@_cache
def exact_floats():
    """Numbers written with repr() (displacement distances, alphas, elevation)."""
    return st.one_of(
        st.integers(-1024, 1024).map(float),
        st.floats(-1e9, 1e9, allow_nan=False, allow_infinity=False),
        st.sampled_from([0.1, 255.0, 1e-7, -1e-7, 1e16, 1.5e-5]),
    )


@_cache
def vec3(cfg: GenConfig = DEFAULT):
    return st.lists(coords(cfg), min_size=3, max_size=3)


@_cache
def colors():
    return st.one_of(
        st.lists(st.integers(0, 255).map(float), min_size=3, max_size=3),
        st.lists(st.floats(0, 255, allow_nan=False).map(lambda x: round(x, 3)), min_size=3, max_size=3),
    )


@_cache
def ids(lo: int = 1, hi: int = 40):
    """Explicit id or -1 (= allocate)."""
    # the small common range 1..6 makes equal numbers across id kinds (ent/solid/side/group/vis/node) frequent
    return st.one_of(st.just(-1), st.integers(1, 6), st.integers(lo, hi), st.integers(lo, 100000))


_GROUP_REFS = st.one_of(st.integers(1, 6), st.integers(1, 12))
_VIS_REFS = st.one_of(st.integers(1, 6), st.integers(1, 40))


@_cache
def nasty_text(exclude: str = '', min_size: int = 0, max_size: int = 10):
    return st.text(gens.text_alphabet(exclude=exclude), min_size=min_size, max_size=max_size)


@_cache
def any_text(cfg: GenConfig = DEFAULT, exclude: str = ''):
    """Values: plain words, or the escape-heavy alphabet incl. newlines and arbitrary Unicode."""
    plain = st.text(''.join(c for c in PLAIN_CHARS if c not in exclude), max_size=cfg.max_text)
    return _weighted(plain, nasty_text(exclude, 0, cfg.max_text), max(cfg.nasty, 0.1) + 0.2)


def key_ok(key: str) -> bool:
    cf = key.casefold()
    return cf != 'id' and not cf.startswith('replace')


def world_key_ok(key: str) -> bool:
    return key_ok(key) and key.casefold() not in ('classname', 'mapversion')


@_cache
def ent_keys(cfg: GenConfig = DEFAULT, world: bool = False):
    ok = world_key_ok if world else key_ok
    plain = st.one_of(st.sampled_from(COMMON_KEYS), gens.ident(1, 8)).filter(ok)
    return _weighted(plain, nasty_text('\r\n', 0, 8).filter(ok), cfg.nasty)


@_cache
def materials(cfg: GenConfig = DEFAULT):
    plain = st.one_of(
        st.sampled_from(['tools/toolsnodraw', 'TOOLS/TOOLSSKIP', 'brick/brickfloor001a', 'dev/dev_measuregeneric01']),
        st.text('abcXYZ019_/', min_size=0, max_size=12),
    )
    return _weighted(plain, nasty_text('', 0, cfg.max_text), cfg.nasty)


def _fixup_var_ok(s: str) -> bool:
    return not s.startswith('$') and not any(ch.isspace() for ch in s)


@_cache
def fixup_vars(cfg: GenConfig = DEFAULT):
    return _weighted(gens.ident(1, 8), nasty_text(' \t\n\r\v\f', 1, 6).filter(_fixup_var_ok), cfg.nasty)


def is_nasty(s: str) -> bool:
    """Does the string need escaping / is it outside printable ASCII?"""
    return any(ch in s for ch in '"\\\n\t\r\v\b\f\a\'') or any(ord(ch) < 32 or ord(ch) > 126 for ch in s)


def _no_instance_prefix(s: str) -> bool:
    return not s.casefold().startswith('instance:')


_IO_NAMES = st.sampled_from(['OnTrigger', 'OnStartTouch', 'OnUser1', 'OnMapSpawn', 'Trigger', 'Kill', 'SetValue', 'FireUser1'])
_TARGETS = st.one_of(gens.ident(0, 8), st.just('!self'), st.just('@glados'))
_PARAMS = st.sampled_from(['', '', '1', '0 0 0', 'a,b', ',', 'x,y,z,w,,'])
_TIMES = st.sampled_from([-1, -1, 1, 0, 5, 100])


@_cache
def _output_fields(cfg: GenConfig, comma: bool):
    sep_excl = '\x1b' + (',' if comma else '')

    def names(excl: str):
        return _weighted(_IO_NAMES, nasty_text(excl, 0, 8).filter(_no_instance_prefix), cfg.nasty)

    def inst_names(excl: str):
        return _pick((4, st.none()), (2, gens.ident(1, 6)), (1, nasty_text(excl + ';', 1, 6) if cfg.nasty > 0 else gens.ident(1, 6)))

    return st.fixed_dictionaries({
        'out': names('\x1b\r\n'),
        'inst_out': inst_names('\x1b\r\n'),
        'targ': _weighted(_TARGETS, nasty_text(sep_excl, 0, 8), cfg.nasty),
        'inp': names(sep_excl),
        'inst_in': inst_names(sep_excl),
        'param': _pick((1, _PARAMS), (1, any_text(cfg, exclude='\x1b'))),
        'delay': gnums().map(abs),
        'times': _TIMES,
        'comma_sep': st.just(comma),
    })


@_cache
def output_descs(cfg: GenConfig = DEFAULT):
    """One Output: separator kind, instance forms, params with commas/newlines/quotes, delay, times."""
    return st.one_of(_output_fields(cfg, True), _output_fields(cfg, False))


@_cache
def fixup_descs(cfg: GenConfig = DEFAULT):
    hi = 120 if cfg.fixup_big_ids else 99
    return st.tuples(fixup_vars(cfg), any_text(cfg), st.one_of(st.integers(1, 6), st.integers(0, hi))).map(list)


_TAGS = st.lists(st.sampled_from([0, 1, 9]), min_size=2, max_size=2)


@_cache
def vertex_descs(cfg: GenConfig, multiblend: bool):
    vec4 = st.lists(gnums(), min_size=4, max_size=4)
    mb = st.none()
    if multiblend:
        mb = _pick((1, st.none()), (1, st.fixed_dictionaries({
            'b': vec4, 'a': vec4, 'c': _pick((1, st.none()), (1, st.lists(vec3(cfg), min_size=4, max_size=4))),
        })))
    return st.fixed_dictionaries({
        'n': vec3(cfg), 'd': exact_floats(), 'o': vec3(cfg), 'on': vec3(cfg), 'a': exact_floats(), 't': _TAGS, 'mb': mb,
    })


_ALLOWED = st.one_of(st.just([-1] * 10), st.lists(st.integers(-2 ** 31, 2 ** 31 - 1), min_size=10, max_size=10))
_PATTERN = st.lists(st.integers(0, 6), min_size=3, max_size=3)
_NONZERO_BLEND = st.sampled_from([1.0, 0.5, -2.0, 1e-3])


MB_CLASSES = ['dense', 'dense', 'only_x', 'only_y', 'only_z', 'only_w', 'only_w', 'one_vertex', 'all_equal']
_MB_CLASS = st.sampled_from(MB_CLASSES)
_CH = {'only_x': 0, 'only_y': 1, 'only_z': 2, 'only_w': 3}


@_cache
def _disp_body(cfg: GenConfig, power: int, multiblend: bool):
    vec4 = st.lists(gnums(), min_size=4, max_size=4)
    shape = st.none()
    if multiblend:
        # which "shape" the multi_blend / multi_alpha vectors of the whole displacement have (see _fix_multiblend)
        shape = st.fixed_dictionaries({
            'b_class': _MB_CLASS, 'a_class': _MB_CLASS, 'force': _NONZERO_BLEND,
            'x': st.integers(0, 16), 'y': st.integers(0, 16), 'b': vec4, 'a': vec4,
        })
    return st.fixed_dictionaries({
        'power': st.just(power), 'pos': vec3(cfg), 'elev': exact_floats(), 'flags': st.integers(0, 15), 'allowed': _ALLOWED,
        'palette': st.lists(vertex_descs(cfg, multiblend), min_size=1, max_size=5 if power <= 2 else 7),
        'pattern': _PATTERN, 'mb_shape': shape,
    })


def _shape_vectors(palette: list, field: str, cls: str, single: dict, force: float) -> None:
    """Give the ``field`` ('b' = multi_blend, 'a' = multi_alpha) vectors of a displacement one of the shapes:
    dense (as drawn), only_<channel> (every other channel zero on every vertex), one_vertex (zero everywhere except the
    ``single`` override vertex), all_equal (the same vector on every vertex)."""
    mbs = [v['mb'] for v in palette if v['mb'] is not None]
    if cls in _CH:
        ch = _CH[cls]
        for mb in mbs:
            mb[field] = [val if i == ch else 0.0 for i, val in enumerate(mb[field])]
        vec = [val if i == ch else 0.0 for i, val in enumerate(single[field])]
        if not vec[ch]:
            vec[ch] = force
        single[field] = vec          # guarantees that the channel is really used somewhere
    elif cls == 'one_vertex':
        for mb in mbs:
            mb[field] = [0.0, 0.0, 0.0, 0.0]
        if not any(single[field]):
            single[field] = [force, 0.0, 0.0, 0.0]
    elif cls == 'all_equal':
        vec = list(single[field])
        if field == 'b' and not any(vec):
            vec[3] = force
        for v in palette:
            if v['mb'] is None:
                v['mb'] = {'b': [0.0, 0.0, 0.0, 0.0], 'a': [0.0, 0.0, 0.0, 0.0], 'c': None}
            v['mb'][field] = list(vec)
        single[field] = None
    else:
        single[field] = None


def _fix_multiblend(disp: dict) -> dict:
    """Apply the drawn multiblend shape; keep the precondition that a displacement carrying multiblend data has at least
    one non-zero multi_blend (the writer keys the whole block on that)."""
    shape = disp.pop('mb_shape')
    if shape is None:
        return disp
    single = {'x': shape['x'], 'y': shape['y'], 'b': shape['b'], 'a': shape['a']}
    _shape_vectors(disp['palette'], 'b', shape['b_class'], single, shape['force'])
    _shape_vectors(disp['palette'], 'a', shape['a_class'], single, shape['force'])
    if single['b'] is not None or single['a'] is not None:
        disp['single'] = single
    size = 2 ** disp['power'] + 1
    if not any(any((disp_vertex_desc(disp, x, y)['mb'] or {'b': ()})['b']) for y in range(size) for x in range(size)):
        v0 = disp['palette'][disp['pattern'][2] % len(disp['palette'])]
        if v0['mb'] is None:
            v0['mb'] = {'b': [0.0, 0.0, 0.0, 0.0], 'a': [0.0, 0.0, 0.0, 0.0], 'c': None}
        v0['mb']['b'] = [shape['force']] + list(v0['mb']['b'][1:])
    return disp


@_cache
def disp_descs(cfg: GenConfig = DEFAULT):
    """Displacement data: a palette of vertex descriptors laid out by (a*x + b*y + c) % len(palette), plus an optional
    ``single`` override {'x', 'y', 'b', 'a'} replacing multi_blend / multi_alpha of exactly one vertex."""
    alts = []
    for power in range(1, max(1, min(4, cfg.max_disp_power)) + 1):
        alts.append(_disp_body(cfg, power, False))
        alts.append(_disp_body(cfg, power, False))
        if cfg.multiblend:
            alts.append(_disp_body(cfg, power, True))
    return st.one_of(*alts).map(_fix_multiblend)


def disp_vertex_desc(disp: dict, x: int, y: int) -> dict:
    """The vertex descriptor at grid position (x, y) of a displacement descriptor."""
    a, b, c = disp['pattern']
    pal = disp['palette']
    vd = pal[(a * x + b * y + c) % len(pal)]
    single = disp.get('single')
    if single is not None:
        size = 2 ** disp['power'] + 1
        if x == single['x'] % size and y == single['y'] % size:
            mb = dict(vd['mb'] or {'b': [0.0, 0.0, 0.0, 0.0], 'a': [0.0, 0.0, 0.0, 0.0], 'c': None})
            if single.get('b') is not None:
                mb['b'] = single['b']
            if single.get('a') is not None:
                mb['a'] = single['a']
            vd = dict(vd, mb=mb)
    return vd


def disp_mb_classes(disp: dict) -> list:
    """Histogram classes of the multiblend data actually laid out on the grid: 'mb:<shape>' / 'ma:<shape>'."""
    size = 2 ** disp['power'] + 1
    res = []
    for field, tag in (('b', 'mb'), ('a', 'ma')):
        vecs = []
        for y in range(size):
            for x in range(size):
                mb = disp_vertex_desc(disp, x, y)['mb']
                vecs.append(tuple(mb[field]) if mb is not None else (0.0, 0.0, 0.0, 0.0))
        nonzero = [v for v in vecs if any(v)]
        if not nonzero:
            continue
        channels = {i for v in nonzero for i in range(4) if v[i]}
        if len(channels) == 1:
            res.append(f'{tag}:only_{"xyzw"[channels.pop()]}')
        if len(nonzero) == 1:
            res.append(f'{tag}:one_vertex')
        if len(set(vecs)) == 1:
            res.append(f'{tag}:all_equal')
        if len(channels) > 1 and len(nonzero) > 1 and len(set(vecs)) > 1:
            res.append(f'{tag}:dense')
    return res


@_cache
def uvaxes(cfg: GenConfig = DEFAULT):
    std = st.sampled_from([[1.0, 0.0, 0.0, 0.0, 0.25], [0.0, -1.0, 0.0, 0.0, 0.25], [0.0, 0.0, -1.0, 16.0, 0.5]])
    return st.one_of(std, st.lists(coords(cfg), min_size=5, max_size=5))


@_cache
def side_descs(cfg: GenConfig = DEFAULT, allow_disp: Optional[bool] = None):
    if allow_disp is None:
        allow_disp = cfg.displacements
    disp = st.none()
    if allow_disp:
        tenths = max(0, min(10, int(round(cfg.disp_weight * 10))))
        disp = _pick((tenths, disp_descs(cfg)), (10 - tenths, st.none())) if tenths < 10 else disp_descs(cfg)
    points = st.none()
    if cfg.strata:
        points = _pick((4, st.none()), (1, st.lists(vec3(cfg), max_size=5)))
    return st.fixed_dictionaries({
        'planes': st.lists(vec3(cfg), min_size=3, max_size=3),
        'id': ids(),
        'lightmap': st.sampled_from([16, 16, 4, 128, 0, -3]),
        'smoothing': st.one_of(st.just(0), st.integers(0, 2 ** 31 - 1)),
        'mat': materials(cfg),
        'rotation': gnums(),
        'uaxis': uvaxes(cfg),
        'vaxis': uvaxes(cfg),
        'points': points,
        'disp': disp,
    })


_SIZES = st.lists(st.one_of(st.integers(1, 512).map(float), st.sampled_from([-64.0, 0.5, 1024.0])), min_size=3, max_size=3)


def _fix_prism(d: dict) -> dict:
    p1, size = d['p1'], d.pop('size')
    p2 = [a + b for a, b in zip(p1, size)]
    for i in range(3):      # large magnitudes may swallow the size: keep the documented non-zero-volume precondition
        if p2[i] == p1[i]:
            p1[i] = 0.0
            p2[i] = size[i]
    d['p2'] = p2
    return d


@_cache
def solid_descs(cfg: GenConfig = DEFAULT):
    """A make_prism box or a Solid of arbitrary Sides, plus the editor attributes."""
    common = {
        'hidden': st.sampled_from([False, False, True]),
        'group_id': st.one_of(st.none(), _GROUP_REFS) if cfg.membership else st.none(),
        'vis_ids': st.lists(_VIS_REFS, max_size=3) if cfg.membership else st.just([]),
        'vis_shown': BOOL, 'vis_auto_shown': BOOL,
        'is_cordon': st.sampled_from([False, False, False, True]),
        'color': colors(),
    }
    prism = st.fixed_dictionaries(dict(
        common, kind=st.just('prism'), p1=vec3(cfg), size=_SIZES, mat=materials(cfg),
        set_points=_chance(3) if cfg.strata else st.just(False),
    )).map(_fix_prism)
    raw = st.fixed_dictionaries(dict(
        common, kind=st.just('sides'), id=ids(), sides=st.lists(side_descs(cfg), min_size=1, max_size=cfg.max_sides),
    ))
    tenths = max(0, min(10, int(round(cfg.prism_weight * 10))))
    return _pick((tenths, prism), (10 - tenths, raw))


def _finish_entity(d: dict) -> dict:
    cls = d.pop('classname')
    if cls is not None:
        d['keys'].insert(0, ['classname', cls])
    node = d.pop('nodeid')
    if node is not None:
        d['keys'].append(['nodeid', str(node)])
    return d


@_cache
def entity_descs(cfg: GenConfig = DEFAULT, world: bool = False, brush: Optional[bool] = None):
    """Entity descriptor.  ``world``: worldspawn restrictions; ``brush``: force / forbid solids (None = either)."""
    extras = cfg.world_extras or not world
    member = cfg.membership and not world
    solids = st.just([])
    if cfg.solids and brush is not False:
        lim = cfg.max_world_solids if world else cfg.max_ent_solids
        low = cfg.min_world_solids if world else (1 if brush else 0)
        solids = st.lists(solid_descs(cfg), min_size=min(low, lim), max_size=lim)
    logical = st.none()
    if not world:
        logical = _pick(
            (5, st.none()),
            (3, st.tuples(st.integers(-5000, 5000), st.integers(0, 20000)).map(lambda t: f'[{t[0]} {t[1]}]')),
            (2 if cfg.nasty > 0 else 0, any_text(cfg)))
    return st.fixed_dictionaries({
        'keys': st.lists(st.tuples(ent_keys(cfg, world), any_text(cfg)).map(list), max_size=cfg.max_keys),
        'classname': st.none() if world else _pick((1, st.none()), (9, st.sampled_from(CLASSNAMES))),
        'nodeid': _pick((9, st.none()), (1, st.integers(1, 6))) if cfg.nodeid and not world else st.none(),
        'fixups': st.lists(fixup_descs(cfg), max_size=cfg.max_fixups) if extras else st.just([]),
        'id': ids(),
        'outputs': st.lists(output_descs(cfg), max_size=cfg.max_outputs) if extras else st.just([]),
        'solids': solids,
        'hidden': st.just(False) if world else st.sampled_from([False, False, True]),
        'groups': st.lists(_GROUP_REFS, max_size=2) if member else st.just([]),
        'vis_ids': st.lists(_VIS_REFS, max_size=3) if member else st.just([]),
        'vis_shown': st.just(True) if world else BOOL,
        'vis_auto_shown': st.just(True) if world else BOOL,
        'logical_pos': logical,
        'color': colors(),
        'comments': _pick((2, st.just('')), (1, any_text(cfg))) if extras else st.just(''),
    }).map(_finish_entity)


@_cache
def visgroup_descs(cfg: GenConfig = DEFAULT):
    leaf = st.fixed_dictionaries({
        'name': any_text(cfg), 'id': ids(1, 40), 'color': colors(), 'children': st.builds(list),
    })
    return st.recursive(
        leaf,
        lambda kids: st.fixed_dictionaries({
            'name': any_text(cfg), 'id': ids(1, 40), 'color': colors(), 'children': st.lists(kids, min_size=1, max_size=3),
        }),
        max_leaves=6,
    )


@_cache
def group_descs():
    return st.fixed_dictionaries({'id': ids(1, 12), 'shown': BOOL, 'auto_shown': BOOL, 'color': colors()})


@_cache
def camera_descs(cfg: GenConfig = DEFAULT):
    return st.fixed_dictionaries({'pos': vec3(cfg), 'target': vec3(cfg)})


@_cache
def cordon_descs(cfg: GenConfig = DEFAULT):
    return st.fixed_dictionaries({
        'min': vec3(cfg), 'max': vec3(cfg), 'active': BOOL, 'name': _pick((1, st.just('Cordon')), (2, any_text(cfg))),
    })


def _uv_ok(x: float) -> bool:
    # +-65536 marks the planar axis in the file (in-band), so a view exactly there is not expressible; 0 is an ordinary
    # coordinate (a view centred on an axis - what the parser itself creates for a view without a position).
    return abs(abs(x) - 65536.0) >= 1e-3


@_cache
def viewport_descs(cfg: GenConfig = DEFAULT):
    ang = st.one_of(st.integers(-360, 720).map(float), st.floats(-720, 720, allow_nan=False).map(lambda v: round(v, 4)))
    uv = st.one_of(coords(cfg).filter(_uv_ok), coords(cfg).filter(_uv_ok), st.sampled_from([0.0, 0.0, 1e-7, 128.0]))
    return st.one_of(
        st.fixed_dictionaries({'kind': st.just('3d'), 'pos': vec3(cfg), 'angle': st.lists(ang, min_size=3, max_size=3)}),
        st.fixed_dictionaries({'kind': st.just('2d'), 'axis': st.sampled_from('xyz'), 'u': uv, 'v': uv,
                               'zoom': st.one_of(st.just(1.0), st.floats(0.001, 256, allow_nan=False))}),
    )


@_cache
def settings_descs(cfg: GenConfig = DEFAULT):
    inst_vis = st.sampled_from([None, 0, 1, 2]) if cfg.strata else st.none()
    views = _pick((1, st.none()), (1, st.lists(viewport_descs(cfg), min_size=4, max_size=4))) if cfg.strata else st.none()
    return st.fixed_dictionaries({
        'hammer_version': st.sampled_from([400, 400, 0, 7]), 'hammer_build': st.sampled_from([5304, 8000, 1]),
        'is_prefab': BOOL, 'cordon_enabled': BOOL, 'map_version': st.integers(0, 5000),
        'show_grid': BOOL, 'show_3d_grid': BOOL, 'snap_grid': BOOL, 'show_logic_grid': BOOL,
        'grid_spacing': st.sampled_from([64, 1, 16, 512, 3]), 'active_cam': st.integers(-1, 4),
        'quickhide_count': st.sampled_from([0, 0, 1, 17]), 'inst_vis': inst_vis, 'viewports': views,
    })


DEFAULT_SETTINGS = {
    'hammer_version': 400, 'hammer_build': 5304, 'is_prefab': False, 'cordon_enabled': False, 'map_version': 0,
    'show_grid': True, 'show_3d_grid': False, 'snap_grid': True, 'show_logic_grid': False, 'grid_spacing': 64,
    'active_cam': -1, 'quickhide_count': 0, 'inst_vis': None, 'viewports': None,
}


def _finish_map(cfg: GenConfig):
    def fn(desc: dict) -> dict:
        build_p, parse_p = desc['preserve_ids'], desc['parse_preserve_ids']
        if not (build_p and parse_p and cfg.dup_ids):
            dedupe_ids(desc)
        if build_p and not parse_p:
            explicit_ids(desc)
        link_membership(desc)
        apply_case_variants(desc, desc.pop('case_mix'))
        return desc
    return fn


# ---- strings that differ only in letter case ---------------------------------------------------------------------------

def _no(chars: str):
    return lambda s: not any(c in s for c in chars)


def string_slots(desc: dict):
    """Every free string field of a map descriptor as (category, holder, key, validator): ``holder[key]`` is the string,
    ``validator(s)`` tells whether ``s`` satisfies that field's own generator preconditions.  Categories: mat, key, val,
    io, inst, fixvar, name."""
    anything = _no('')
    for n, ent in enumerate([desc['world']] + desc['entities']):
        kok = world_key_ok if n == 0 else key_ok
        for pair in ent['keys']:
            yield 'key', pair, 0, (lambda s, kok=kok: kok(s) and '\r' not in s and '\n' not in s)
            if pair[0].casefold() != 'classname' or n:
                yield 'val', pair, 1, anything
        for fix in ent['fixups']:
            yield 'fixvar', fix, 0, (lambda s: bool(s) and _fixup_var_ok(s))
            yield 'val', fix, 1, anything
        for out in ent['outputs']:
            sep = '\x1b,' if out['comma_sep'] else '\x1b'
            yield 'io', out, 'out', (lambda s: _no('\x1b\r\n')(s) and _no_instance_prefix(s))
            yield 'io', out, 'inp', (lambda s, sep=sep: _no(sep)(s) and _no_instance_prefix(s))
            yield 'val', out, 'targ', _no(sep)
            yield 'val', out, 'param', _no('\x1b')
            if out['inst_out'] is not None:
                yield 'inst', out, 'inst_out', (lambda s: bool(s) and _no(';\x1b\r\n')(s))
            if out['inst_in'] is not None:
                yield 'inst', out, 'inst_in', (lambda s, sep=sep: bool(s) and _no(';' + sep)(s))
        yield 'name', ent, 'comments', anything
        if ent['logical_pos'] is not None:
            yield 'name', ent, 'logical_pos', anything
        for sol in ent['solids']:
            if sol['kind'] == 'prism':
                yield 'mat', sol, 'mat', anything
            else:
                for side in sol['sides']:
                    yield 'mat', side, 'mat', anything

    def vis(v):
        yield 'name', v, 'name', anything
        for c in v['children']:
            yield from vis(c)

    for v in desc['visgroups']:
        yield from vis(v)
    for c in desc['cordons']:
        yield 'name', c, 'name', anything


def case_variant(text: str, mode: int) -> str:
    """ASCII letters of ``text`` in another case (0 upper, 1 lower, 2 swapped, 3 first letter swapped); nothing else changes,
    so every case-insensitive generator precondition that held for ``text`` still holds."""
    mode %= 4
    if mode == 3:
        for i, c in enumerate(text):
            if c.isascii() and c.isalpha():
                return text[:i] + c.swapcase() + text[i + 1:]
        return text
    fn = (str.upper, str.lower, str.swapcase)[mode]
    return ''.join(fn(c) if c.isascii() else c for c in text)


def apply_case_variants(desc: dict, mix: list) -> None:
    """Make "the same string as an earlier object of the same kind, in another letter case" a frequent choice: for the i-th
    string field the selector ``mix[i % len(mix)]`` (0..15) says whether (values < 6) and how the field is replaced by a
    case variant of a string seen earlier in the same category of the same map.  In place."""
    if not mix:
        return
    pools: dict = {}
    for i, (cat, holder, key, valid) in enumerate(string_slots(desc)):
        sel = mix[i % len(mix)]
        pool = pools.setdefault(cat, [])
        cur = holder[key]
        if sel < 6 and pool:
            cand = case_variant(pool[(sel * 7 + i) % len(pool)], sel)
            if cand != cur and valid(cand):
                holder[key] = cur = cand
        if any(c.isascii() and c.isalpha() for c in cur):
            pool.append(cur)


def case_transformed(desc: dict, mode: int) -> dict:
    """A copy of a map descriptor with every free string put into another letter case (for "the other spelling was
    parsed earlier in this process" histories)."""
    import copy
    res = copy.deepcopy(desc)
    for cat, holder, key, valid in string_slots(res):
        cand = case_variant(holder[key], mode)
        if valid(cand):
            holder[key] = cand
    return res


def case_variant_classes(desc: dict) -> set:
    """Histogram classes 'case_variant:<category>': two string fields equal case-insensitively but not exactly."""
    seen: dict = {}
    res = set()
    for cat, holder, key, valid in string_slots(desc):
        cur = holder[key]
        spell = seen.setdefault((cat, cur.casefold()), cur)
        if spell != cur:
            res.add('case_variant:' + cat)
    return res


def link_membership(desc: dict) -> None:
    """Point about half of the group / visgroup membership references (the odd ones) at groups / visgroups that exist in
    the map with an explicit id; the rest stay as drawn (possibly dangling).  In place."""
    vis_ids: list = []

    def vis(v: dict) -> None:
        if v['id'] != -1:
            vis_ids.append(v['id'])
        for c in v['children']:
            vis(c)

    for v in desc['visgroups']:
        vis(v)
    group_ids = [g['id'] for g in desc['groups'] if g['id'] != -1]

    def link(ref: int, pool: list) -> int:
        return pool[(ref // 2) % len(pool)] if pool and ref % 2 else ref

    for ent in [desc['world']] + desc['entities']:
        ent['groups'] = [link(r, group_ids) for r in ent['groups']]
        ent['vis_ids'] = [link(r, vis_ids) for r in ent['vis_ids']]
        for sol in ent['solids']:
            if sol.get('group_id') is not None:
                sol['group_id'] = link(sol['group_id'], group_ids)
            sol['vis_ids'] = [link(r, vis_ids) for r in sol.get('vis_ids', [])]


@_cache
def map_descs(cfg: GenConfig = DEFAULT, preserve_ids: Optional[bool] = None,
              min_ents: int = 0, brush_ents: Optional[bool] = None):
    """Whole-map descriptor.  ``preserve_ids`` (how the VMF is built) and ``parse_preserve_ids`` (how a round trip should
    re-parse it) are drawn independently when the argument is None.  Duplicate explicit ids within a kind are only left in
    when both are true; a map built with preserve_ids=True for parsing with False gets explicit, per-kind unique ids that
    may clash ACROSS kinds (the situation of real Hammer files: visgroups 1, 2 and groups 1, 2)."""
    meta = cfg.meta
    return st.fixed_dictionaries({
        'preserve_ids': st.sampled_from([False, True, True]) if preserve_ids is None else st.just(preserve_ids),
        'parse_preserve_ids': BOOL if preserve_ids is None else st.just(preserve_ids),
        'settings': settings_descs(cfg) if meta and cfg.settings else st.builds(lambda: dict(DEFAULT_SETTINGS)),
        'visgroups': st.lists(visgroup_descs(cfg), max_size=cfg.max_visgroups) if meta else st.builds(list),
        'groups': st.lists(group_descs(), max_size=cfg.max_groups) if meta else st.builds(list),
        'cameras': st.lists(camera_descs(cfg), max_size=cfg.max_cameras) if meta else st.builds(list),
        'cordons': st.lists(cordon_descs(cfg), max_size=cfg.max_cordons) if meta else st.builds(list),
        'world': entity_descs(cfg, world=True),
        'entities': st.lists(entity_descs(cfg, brush=brush_ents), min_size=min_ents, max_size=cfg.max_ents),
        'case_mix': st.lists(st.integers(0, 15), max_size=8) if cfg.case_variants else st.builds(list),
    }).map(_finish_map(cfg))


def dedupe_ids(desc: dict) -> None:
    """Make explicit ids unique per kind (later duplicates become -1 = allocate).  In place."""
    seen: dict[str, set] = {'ent': {1}, 'solid': set(), 'side': set(), 'group': set(), 'vis': set()}

    def take(kind: str, holder: dict) -> None:
        v = holder.get('id', -1)
        if v != -1:
            if v in seen[kind]:
                holder['id'] = -1
            else:
                seen[kind].add(v)

    def vis(v: dict) -> None:
        take('vis', v)
        for c in v['children']:
            vis(c)

    for v in desc['visgroups']:
        vis(v)
    for g in desc['groups']:
        take('group', g)
    for ent in [desc['world']] + desc['entities']:
        if ent is not desc['world']:
            take('ent', ent)
        else:
            ent['id'] = -1
        for sol in ent['solids']:
            if sol['kind'] == 'sides':
                take('solid', sol)
                for side in sol['sides']:
                    take('side', side)
    # make_prism allocates ids itself: explicit ids could collide with them under IDMan only harmlessly (IDMan re-allocates).


def explicit_ids(desc: dict) -> None:
    """For a map built with VMF(preserve_ids=True) (ids pass through unchecked) that will be parsed with preserve_ids=False:
    make every id unique within its kind *by construction* - visgroups, groups and entities all get explicit small ids
    (no auto-allocation that a later explicit id could repeat), explicit solid/side ids move above 1000 (make_prism
    allocates from 1), duplicate "nodeid" keyvalues are dropped.  Call after dedupe_ids().  In place."""
    def fill(holders: list, start: int) -> None:
        used = {h['id'] for h in holders if h['id'] != -1}
        nxt = start
        for h in holders:
            if h['id'] == -1:
                while nxt in used:
                    nxt += 1
                h['id'] = nxt
                used.add(nxt)

    vis_all: list = []

    def vis(v: dict) -> None:
        vis_all.append(v)
        for c in v['children']:
            vis(c)

    for v in desc['visgroups']:
        vis(v)
    fill(vis_all, 1)
    fill(desc['groups'], 1)
    fill(desc['entities'], 2)           # worldspawn takes 1
    nodes: set = set()
    for ent in [desc['world']] + desc['entities']:
        keys = []
        for k, v in ent['keys']:
            if k.casefold() == 'nodeid':
                if v.strip() in nodes:
                    continue
                nodes.add(v.strip())
            keys.append([k, v])
        ent['keys'] = keys
        for sol in ent['solids']:
            if sol['kind'] == 'sides':
                if sol['id'] != -1:
                    sol['id'] += 1000
                for side in sol['sides']:
                    if side['id'] != -1:
                        side['id'] += 1000


def content_ids(content: dict) -> dict:
    """All *defining* ids of a walker structure per kind: {'ent': [...], 'solid': [...], 'side': [...], 'group': [...],
    'vis': [...], 'node': [...]} (lists, so duplicates are visible)."""
    res: dict = {'ent': [], 'solid': [], 'side': [], 'group': [], 'vis': [], 'node': []}

    def vis(v: dict) -> None:
        res['vis'].append(v['id']['v'])
        for c in v['children']:
            vis(c)

    for v in content['visgroups'] or []:
        vis(v)
    for g in content['groups']:
        res['group'].append(g['id']['v'])
    for ent in [content['world']] + content['entities']:
        res['ent'].append(ent['id']['v'])
        for k, v in ent['keys']:
            if k.casefold() == 'nodeid' and isinstance(v, dict):
                res['node'].append(v['v'])
        for sol in ent['solids']:
            res['solid'].append(sol['id']['v'])
            for side in sol['sides']:
                res['side'].append(side['id']['v'])
    return res


# ---------------------------------------------------------------------------------------------------------------------
# Builders (public constructors / attributes only)
# ---------------------------------------------------------------------------------------------------------------------

def _vec(v):
    from srctools.math import Vec
    return Vec(v[0], v[1], v[2])


def build_side(vmf, desc: dict):
    """Side(...) through the constructor; displacement / Strata data through the public attributes and side[x, y]."""
    from array import array
    from srctools.vmf import DispFlag, Side, TriangleTag, UVAxis, Vec4
    disp = desc.get('disp')
    side = Side(
        vmf, [_vec(p) for p in desc['planes']], desc.get('id', -1), desc.get('lightmap', 16), desc.get('smoothing', 0),
        desc.get('mat', 'tools/toolsnodraw'), desc.get('rotation', 0.0),
        UVAxis(*desc['uaxis']) if desc.get('uaxis') else None, UVAxis(*desc['vaxis']) if desc.get('vaxis') else None,
        disp_power=disp['power'] if disp else 0,
    )
    if desc.get('points') is not None:
        side.strata_points = [_vec(p) for p in desc['points']]
    if disp:
        side.disp_pos = _vec(disp['pos'])
        side.disp_elevation = disp['elev']
        side.disp_flags = DispFlag(disp['flags'])
        side.disp_allowed_vert = array('i', disp['allowed'])
        size = side.disp_size
        for y in range(size):
            for x in range(size):
                vd = disp_vertex_desc(disp, x, y)
                vert = side[x, y]
                vert.normal = _vec(vd['n'])
                vert.distance = vd['d']
                vert.offset = _vec(vd['o'])
                vert.offset_norm = _vec(vd['on'])
                vert.alpha = vd['a']
                vert.triangle_a = TriangleTag(vd['t'][0])
                vert.triangle_b = TriangleTag(vd['t'][1])
                mb = vd.get('mb')
                if mb is not None:
                    vert.multi_blend = Vec4(*mb['b'])
                    vert.multi_alpha = Vec4(*mb['a'])
                    if mb['c'] is not None:
                        vert.multi_colors = [_vec(c) for c in mb['c']]
    return side


def build_solid(vmf, desc: dict):
    """make_prism box or Solid(...) of arbitrary sides.  Not added to the map."""
    from srctools.vmf import Solid
    if desc['kind'] == 'prism':
        solid = vmf.make_prism(_vec(desc['p1']), _vec(desc['p2']), desc.get('mat', 'tools/toolsnodraw'),
                               set_points=desc.get('set_points', False)).solid
        solid.visgroup_ids = set(desc.get('vis_ids', ()))
        solid.hidden = desc.get('hidden', False)
        solid.group_id = desc.get('group_id')
        solid.vis_shown = desc.get('vis_shown', True)
        solid.vis_auto_shown = desc.get('vis_auto_shown', True)
        solid.is_cordon = desc.get('is_cordon', False)
        solid.editor_color = _vec(desc.get('color', [255, 255, 255]))
        return solid
    return Solid(
        vmf, desc.get('id', -1), [build_side(vmf, s) for s in desc['sides']], desc.get('vis_ids', ()),
        desc.get('hidden', False), desc.get('group_id'), desc.get('vis_shown', True), desc.get('vis_auto_shown', True),
        desc.get('is_cordon', False), _vec(desc.get('color', [255, 255, 255])),
    )


def build_output(desc: dict):
    from srctools.vmf import Output
    return Output(desc['out'], desc['targ'], desc['inp'], desc.get('param', ''), desc.get('delay', 0.0),
                  times=desc.get('times', -1), inst_out=desc.get('inst_out'), inst_in=desc.get('inst_in'),
                  comma_sep=desc.get('comma_sep', False))


def build_entity(vmf, desc: dict, add: bool = False):
    """Entity(...) through the constructor.  ``add``: also vmf.add_ent()."""
    from srctools.vmf import Entity, FixupValue
    ent = Entity(
        vmf,
        keys={k: v for k, v in desc.get('keys', [])},
        fixup=[FixupValue(var, val, fid) for var, val, fid in desc.get('fixups', [])],
        ent_id=desc.get('id', -1),
        outputs=[build_output(o) for o in desc.get('outputs', [])],
        solids=[build_solid(vmf, s) for s in desc.get('solids', [])],
        hidden=desc.get('hidden', False),
        groups=desc.get('groups', ()),
        vis_ids=desc.get('vis_ids', ()),
        vis_shown=desc.get('vis_shown', True),
        vis_auto_shown=desc.get('vis_auto_shown', True),
        logical_pos=desc.get('logical_pos'),
        editor_color=_vec(desc.get('color', [255, 255, 255])),
        comments=desc.get('comments', ''),
    )
    if add:
        vmf.add_ent(ent)
    return ent


def build_visgroup(vmf, desc: dict):
    from srctools.vmf import VisGroup
    return VisGroup(vmf, desc['name'], desc.get('id', -1), _vec(desc['color']),
                    [build_visgroup(vmf, c) for c in desc.get('children', [])])


def build_viewport(desc: dict):
    from srctools.math import Angle
    from srctools.vmf import Strata2DViewport, Strata3DViewport
    if desc['kind'] == '3d':
        return Strata3DViewport(_vec(desc['pos']), Angle(*desc['angle']))
    return Strata2DViewport(desc['axis'], desc['u'], desc['v'], desc['zoom'])


def build_vmf(desc: dict):
    """Build the whole map: settings, visgroups, groups, cameras, cordons, worldspawn (+ world brushes), entities."""
    from srctools.vmf import VMF, Camera, Cordon, EntityFixup, EntityGroup, FixupValue, StrataInstanceVisibility
    s = dict(DEFAULT_SETTINGS)
    s.update(desc.get('settings') or {})
    vmf = VMF(
        preserve_ids=desc.get('preserve_ids', False),
        hammer_version=s['hammer_version'], hammer_build=s['hammer_build'], is_prefab=s['is_prefab'],
        cordon_enabled=s['cordon_enabled'], map_version=s['map_version'], show_grid=s['show_grid'],
        show_3d_grid=s['show_3d_grid'], snap_grid=s['snap_grid'], show_logic_grid=s['show_logic_grid'],
        grid_spacing=s['grid_spacing'], active_cam=s['active_cam'], quickhide_count=s['quickhide_count'],
        strata_inst_visibility=None if s['inst_vis'] is None else StrataInstanceVisibility(s['inst_vis']),
    )
    if s['viewports'] is not None:
        vmf.strata_viewports = [build_viewport(v) for v in s['viewports']]
    for vd in desc.get('visgroups', []):
        vmf.vis_tree.append(build_visgroup(vmf, vd))
    for gd in desc.get('groups', []):
        grp = EntityGroup(vmf, gd.get('id', -1), gd['shown'], gd['auto_shown'], _vec(gd['color']))
        vmf.groups[grp.id] = grp
    for cd in desc.get('cameras', []):
        Camera(vmf, _vec(cd['pos']), _vec(cd['target']))
    for cd in desc.get('cordons', []):
        Cordon(vmf, _vec(cd['min']), _vec(cd['max']), cd['active'], cd['name'])
    wd = desc.get('world') or {}
    spawn = vmf.spawn
    for k, v in wd.get('keys', []):
        spawn[k] = v
    for var, val, fid in wd.get('fixups', []):
        spawn.fixup[var] = val
    for od in wd.get('outputs', []):
        spawn.add_out(build_output(od))
    spawn.comments = wd.get('comments', '')
    spawn.editor_color = _vec(wd.get('color', [255, 255, 255]))
    for sd in wd.get('solids', []):
        vmf.add_brush(build_solid(vmf, sd))
    for ed in desc.get('entities', []):
        build_entity(vmf, ed, add=True)
    return vmf


# ---------------------------------------------------------------------------------------------------------------------
# Independent content walker.  Numeric leaves: {'~': class, 'v': value}
#   'c' coordinate / texture axis (6 decimals)   'g' %g (6 significant digits)   'x' exact float
#   'a' angle in degrees (circle, 6 decimals)    'id' {'~':'id','k':kind,'v':n}   'ids' {'~':'ids','k':kind,'v':[sorted]}
# ---------------------------------------------------------------------------------------------------------------------

def C(x): return {'~': 'c', 'v': float(x)}
def G(x): return {'~': 'g', 'v': float(x)}
def X(x): return {'~': 'x', 'v': float(x)}
def A(x): return {'~': 'a', 'v': float(x)}
def ID(kind, n): return {'~': 'id', 'k': kind, 'v': n}
def IDS(kind, ns): return {'~': 'ids', 'k': kind, 'v': sorted(ns)}
ANY = {'~': 'any'}


def _v3(v): return [C(v.x), C(v.y), C(v.z)]


def side_content(side) -> dict:
    res = {
        'id': ID('side', side.id),
        'planes': [_v3(p) for p in side.planes],
        'mat': side.mat,
        'uaxis': [C(side.uaxis.x), C(side.uaxis.y), C(side.uaxis.z), C(side.uaxis.offset), C(side.uaxis.scale)],
        'vaxis': [C(side.vaxis.x), C(side.vaxis.y), C(side.vaxis.z), C(side.vaxis.offset), C(side.vaxis.scale)],
        'rotation': G(side.ham_rot),
        'lightmap': side.lightmap,
        'smoothing': side.smooth,
        'points': None if side.strata_points is None else [_v3(p) for p in side.strata_points],
        'disp': None,
    }
    if side.disp_power > 0:
        size = side.disp_size
        verts = []
        any_blend = False
        for y in range(size):
            for x in range(size):
                v = side[x, y]
                mb = v.multi_blend
                ma = v.multi_alpha
                if mb.x or mb.y or mb.z or mb.w:
                    any_blend = True
                verts.append({
                    'n': _v3(v.normal), 'd': X(v.distance), 'o': _v3(v.offset), 'on': _v3(v.offset_norm), 'a': X(v.alpha),
                    't': [v.triangle_a.value, v.triangle_b.value],
                    'mb': [G(mb.x), G(mb.y), G(mb.z), G(mb.w)], 'ma': [G(ma.x), G(ma.y), G(ma.z), G(ma.w)],
                    'mc': None if v.multi_colors is None else [_v3(c) for c in v.multi_colors],
                })
        res['disp'] = {
            'power': side.disp_power, 'pos': _v3(side.disp_pos), 'elev': X(side.disp_elevation),
            'flags': side.disp_flags.value, 'allowed': list(side.disp_allowed_vert), 'verts': verts,
            'has_multiblend': any_blend,
        }
    return res


def solid_content(solid) -> dict:
    return {
        'id': ID('solid', solid.id),
        'sides': [side_content(s) for s in solid.sides],
        'vis_ids': IDS('vis', solid.visgroup_ids),
        'hidden': bool(solid.hidden),
        'group_id': None if solid.group_id is None else ID('group', solid.group_id),
        'vis_shown': bool(solid.vis_shown), 'vis_auto_shown': bool(solid.vis_auto_shown),
        'is_cordon': bool(solid.is_cordon), 'color': _v3(solid.editor_color),
    }


def output_content(out) -> dict:
    return {
        'output': out.output, 'inst_out': out.inst_out, 'target': out.target, 'input': out.input, 'inst_in': out.inst_in,
        'params': out.params, 'delay': G(out.delay), 'times': out.times, 'comma_sep': bool(out.comma_sep),
    }


def entity_content(ent) -> dict:
    # Mapping protocol: iteration yields the stored key casing.  A sorted pair list, not a dict: keys are arbitrary strings.
    keys = sorted([k, ent[k]] for k in ent)
    for pair in keys:        # "nodeid" is an id managed by VMF.node_id: compared like the other ids
        if pair[0].casefold() == 'nodeid':
            try:
                pair[1] = ID('node', int(pair[1]))
            except ValueError:
                pass
    fix = []
    if len(ent.fixup):
        fix = sorted(([f.var, f.value, f.id] for f in ent.fixup.copy_values()), key=lambda t: (t[2], t[0]))
    return {
        'id': ID('ent', ent.id),
        'keys': keys,
        'fixups': fix,
        'outputs': [output_content(o) for o in ent.outputs],
        'solids': [solid_content(s) for s in ent.solids],
        'hidden': bool(ent.hidden),
        'groups': IDS('group', ent.groups),
        'vis_ids': IDS('vis', ent.visgroup_ids),
        'vis_shown': bool(ent.vis_shown), 'vis_auto_shown': bool(ent.vis_auto_shown),
        'logical_pos': ent.logical_pos, 'color': _v3(ent.editor_color), 'comments': ent.comments,
    }


def visgroup_content(vis) -> dict:
    return {'name': vis.name, 'id': ID('vis', vis.id), 'color': _v3(vis.color),
            'children': [visgroup_content(c) for c in vis.child_groups]}


def viewport_content(vp) -> dict:
    if hasattr(vp, 'axis'):
        return {'kind': '2d', 'axis': vp.axis, 'u': C(vp.u), 'v': C(vp.v), 'zoom': C(vp.zoom)}
    return {'kind': '3d', 'pos': _v3(vp.position), 'angle': [A(vp.angle.pitch), A(vp.angle.yaw), A(vp.angle.roll)]}


def vmf_content(vmf) -> dict:
    """Everything the C06 statement lists, read through public attributes."""
    return {
        'settings': {
            'format_ver': vmf.format_ver, 'hammer_ver': vmf.hammer_ver, 'hammer_build': vmf.hammer_build,
            'is_prefab': bool(vmf.is_prefab), 'map_ver': vmf.map_ver, 'quickhide_count': vmf.quickhide_count,
        },
        'view': {
            'show_grid': bool(vmf.show_grid), 'show_3d_grid': bool(vmf.show_3d_grid), 'snap_grid': bool(vmf.snap_grid),
            'show_logic_grid': bool(vmf.show_logic_grid), 'grid_spacing': vmf.grid_spacing,
            'inst_vis': None if vmf.strata_instance_vis is None else vmf.strata_instance_vis.value,
            'viewports': None if vmf.strata_viewports is None else [viewport_content(v) for v in vmf.strata_viewports],
        },
        'visgroups': [visgroup_content(v) for v in vmf.vis_tree],
        'groups': [
            {'key': ID('group', k), 'id': ID('group', g.id), 'shown': bool(g.shown), 'auto_shown': bool(g.auto_shown), 'color': _v3(g.color)}
            for k, g in vmf.groups.items()
        ],
        'cameras': {'active': vmf.active_cam, 'list': [{'pos': _v3(c.pos), 'target': _v3(c.target)} for c in vmf.cameras]},
        'cordons': {'enabled': bool(vmf.cordon_enabled), 'list': [
            {'name': c.name, 'active': bool(c.active), 'min': _v3(c.bounds_min), 'max': _v3(c.bounds_max)} for c in vmf.cordons]},
        'world': entity_content(vmf.spawn),
        'world_brushes_shared': vmf.brushes is vmf.spawn.solids,
        'entities': [entity_content(e) for e in vmf.entities],
    }


def normalise_roundtrip(content: dict, minimal: bool = False, disp_multiblend: bool = True) -> dict:
    """Drop / canonicalise what the VMF text cannot carry (each item documented in vmf.py).  Returns a new structure."""
    import copy
    c = copy.deepcopy(content)
    if not c['cameras']['list']:
        c['cameras']['active'] = -1                    # export(): "if len(self.cameras) == 0: self.active_cam = -1"
    if not c['cordons']['list']:
        c['cordons']['enabled'] = None                 # export() writes "active" "0" when there is no cordon
    if c['settings']['quickhide_count'] <= 0:
        c['settings']['quickhide_count'] = 0           # block only written for count > 0
    if minimal:                                        # documented: viewsettings, cameras, cordons and visgroups skipped
        c['view'] = c['cameras'] = c['cordons'] = c['visgroups'] = None
    w = c['world']
    for k in ('hidden', 'groups', 'vis_ids', 'vis_shown', 'vis_auto_shown', 'logical_pos'):
        w[k] = None                                    # "Worldspawn can't be hidden, so skip these."
    w['keys'] = [[k, v] for k, v in w['keys'] if k.casefold() != 'mapversion']
    for ent in [w] + c['entities']:
        for sol in ent['solids']:
            if ent is not w:                           # Solid.export: groups "not allowed inside brush entities"
                sol['group_id'] = None
                sol['vis_ids'] = None
            for side in sol['sides']:
                d = side['disp']
                if d is None:
                    continue
                size = 2 ** d['power'] + 1
                has_mb = d.pop('has_multiblend') and disp_multiblend
                for i, v in enumerate(d['verts']):
                    x, y = i % size, i // size
                    if x == size - 1 or y == size - 1:
                        v['t'] = None                  # tags are per quad: "the last row/column's triangles are ignored"
                    if not has_mb:
                        v['mb'] = v['ma'] = v['mc'] = None
                    elif v['mc'] is None:
                        v['mc'] = [[C(1), C(1), C(1)] for _ in range(4)]   # parser default for a multiblend displacement
    return c


def _num_close(cls: str, a: float, b: float) -> bool:
    if cls == 'x':
        return a == b
    if cls == 'c':
        return abs(a - b) <= 5e-7 + 2.3e-16 * max(abs(a), abs(b))
    if cls == 'g':
        return abs(a - b) <= 5.0000001e-6 * max(abs(a), abs(b))
    if cls == 'a':
        d = abs(a - b) % 360.0
        return min(d, 360.0 - d) <= 5e-7 + 1e-12
    raise ValueError(cls)


class IdMaps:
    """First-occurrence renumbering per id kind, for both sides of a comparison."""
    def __init__(self, mode: str) -> None:
        self.mode = mode          # 'exact' | 'renumber'
        self.a: dict = {}
        self.b: dict = {}
        self.last = (None, None)

    def same(self, kind: str, x: int, y: int) -> bool:
        if self.mode == 'exact':
            return x == y
        ma = self.a.setdefault(kind, {})
        mb = self.b.setdefault(kind, {})
        ia = ma.setdefault(x, len(ma))
        ib = mb.setdefault(y, len(mb))
        self.last = (ia, ib)
        return ia == ib

    def same_set(self, kind: str, xs: list, ys: list) -> bool:
        if self.mode == 'exact':
            return xs == ys
        if len(xs) != len(ys):
            return False
        ma = self.a.get(kind, {})
        mb = self.b.get(kind, {})
        ka = sorted(ma[x] for x in xs if x in ma)
        kb = sorted(mb[y] for y in ys if y in mb)
        if ka != kb:
            return False
        ua = sorted(x for x in xs if x not in ma)
        ub = sorted(y for y in ys if y not in mb)
        return all(self.same(kind, x, y) for x, y in zip(ua, ub))


def diff_content(a: Any, b: Any, ids: str = 'exact', limit: int = 8) -> list:
    """Compare two walker structures; returns up to ``limit`` (path, want, got) differences."""
    out: list = []
    maps = IdMaps(ids)

    def plain(x):
        return x['v'] if isinstance(x, dict) and '~' in x else x

    def rec(x, y, path):
        if len(out) >= limit:
            return
        if isinstance(x, dict) and x.get('~') == 'any':
            return                                      # wildcard: the expected structure does not constrain this value
        if isinstance(x, dict) and '~' in x:
            if not (isinstance(y, dict) and y.get('~') == x['~']):
                out.append((path, x, y))
            elif x['~'] == 'id':
                if not maps.same(x['k'], x['v'], y['v']):
                    if ids == 'renumber':
                        ia, ib = maps.last
                        out.append((path, f"{x['k']} id {x['v']} = #{ia} by first occurrence", f"{y['v']} = #{ib}"))
                    else:
                        out.append((path, x['v'], y['v']))
            elif x['~'] == 'ids':
                if not maps.same_set(x['k'], x['v'], y['v']):
                    out.append((path, x['v'], y['v']))
            elif not _num_close(x['~'], x['v'], y['v']):
                out.append((path, x['v'], y['v']))
        elif isinstance(x, dict):
            if not isinstance(y, dict) or '~' in y:
                out.append((path, x, y))
                return
            if list(x.keys()) != list(y.keys()) and sorted(x.keys()) != sorted(y.keys()):
                out.append((path + '<keys>', sorted(x.keys()), sorted(y.keys())))
                return
            for k in x:
                rec(x[k], y[k], f'{path}.{k}' if path else str(k))
        elif isinstance(x, list):
            if not isinstance(y, list):
                out.append((path, x, y))
                return
            if len(x) != len(y):
                out.append((path + '<len>', len(x), len(y)))
                return
            for i, (p, q) in enumerate(zip(x, y)):
                rec(p, q, f'{path}[{i}]')
        else:
            if type(x) is not type(y) or x != y:
                out.append((path, x, y))

    rec(a, b, '')
    return out


# ---------------------------------------------------------------------------------------------------------------------
# Consistent renumbering on the parsed Keyvalues tree (independent of vmf.py)
# ---------------------------------------------------------------------------------------------------------------------

_ID_RULES = {
    ('world', 'id'): 'ent', ('entity', 'id'): 'ent',
    ('world', 'nodeid'): 'node', ('entity', 'nodeid'): 'node',
    ('solid', 'id'): 'solid', ('side', 'id'): 'side', ('group', 'id'): 'group',
    ('editor', 'groupid'): 'group', ('editor', 'group'): 'group',
    ('editor', 'visgroupid'): 'vis', ('visgroup', 'visgroupid'): 'vis',
}


def renumber_ids(src) -> list:
    """Return the tree as nested [name, value | [children]] lists with every id replaced by '#<kind>:<n>'.

    ``n`` is the order of first occurrence of that id per kind (ent / node / solid / side / group / vis) in
    document order, so two texts are equal after this pass iff they differ by a consistent renaming of ids.
    ``src`` is VMF text or an already parsed Keyvalues root.
    """
    from srctools.keyvalues import Keyvalues
    root = Keyvalues.parse(src) if isinstance(src, str) else src
    maps: dict[str, dict[str, int]] = {}

    def rec(kv, parent: str):
        res = []
        for child in kv:
            name = child.real_name
            if child.has_children():
                res.append([name, rec(child, (name or '').casefold())])
                continue
            value = child.value
            kind = _ID_RULES.get((parent, (name or '').casefold()))
            if kind is not None:
                try:
                    int(value)
                except ValueError:
                    kind = None
            if kind is not None:
                m = maps.setdefault(kind, {})
                value = f'#{kind}:{m.setdefault(value.strip(), len(m))}'
            res.append([name, value])
        return res

    return rec(root, '')


# ---------------------------------------------------------------------------------------------------------------------
# Descriptor statistics (for histograms / non-triviality rules)
# ---------------------------------------------------------------------------------------------------------------------

def desc_stats(desc: dict) -> dict:
    """Counts of object kinds in a map descriptor."""
    s = dict.fromkeys([
        'ents', 'brush_ents', 'hidden_ents', 'world_brushes', 'prisms', 'raw_solids', 'hidden_solids', 'sides', 'strata_points',
        'disps', 'multiblend_disps', 'outputs', 'out_comma', 'out_esc_sep', 'inst_out', 'inst_in', 'fixups', 'nasty_keys', 'nasty_values',
        'nasty_mats', 'nasty_fixup_vars', 'ent_groups', 'ent_vis', 'solid_groups', 'comments', 'logical_pos', 'visgroups', 'nested_visgroups', 'groups',
        'cameras', 'cordons', 'viewports', 'inst_vis', 'nodeid', 'max_power',
    ], 0)
    s['labels'] = set()      # extra histogram classes (multiblend shapes)

    def solid(sd, world):
        s['hidden_solids'] += bool(sd.get('hidden'))
        s['solid_groups'] += bool(world and (sd.get('group_id') is not None or sd.get('vis_ids')))
        if sd['kind'] == 'prism':
            s['prisms'] += 1
            s['sides'] += 6
            s['nasty_mats'] += is_nasty(sd.get('mat', ''))
            s['strata_points'] += bool(sd.get('set_points'))
            return
        s['raw_solids'] += 1
        for side in sd['sides']:
            s['sides'] += 1
            s['nasty_mats'] += is_nasty(side.get('mat', ''))
            s['strata_points'] += side.get('points') is not None
            d = side.get('disp')
            if d:
                s['disps'] += 1
                s['max_power'] = max(s['max_power'], d['power'])
                classes = disp_mb_classes(d)
                s['multiblend_disps'] += bool(classes) or any(v.get('mb') for v in d['palette'])
                for cls in classes:
                    s['labels'].add(cls)

    def ent(ed, world):
        for k, v in ed.get('keys', []):
            s['nasty_keys'] += is_nasty(k)
            s['nasty_values'] += is_nasty(v)
            s['nodeid'] += k == 'nodeid'
        s['fixups'] += len(ed.get('fixups', []))
        s['nasty_fixup_vars'] += sum(is_nasty(f[0]) for f in ed.get('fixups', []))
        for o in ed.get('outputs', []):
            s['outputs'] += 1
            s['out_comma'] += bool(o['comma_sep'])
            s['out_esc_sep'] += not o['comma_sep']
            s['inst_out'] += o.get('inst_out') is not None
            s['inst_in'] += o.get('inst_in') is not None
        s['comments'] += bool(ed.get('comments'))
        if not world:
            s['ents'] += 1
            s['brush_ents'] += bool(ed.get('solids'))
            s['hidden_ents'] += bool(ed.get('hidden'))
            s['ent_groups'] += bool(ed.get('groups'))
            s['ent_vis'] += bool(ed.get('vis_ids'))
            s['logical_pos'] += ed.get('logical_pos') is not None
        else:
            s['world_brushes'] += len(ed.get('solids', []))
        for sd in ed.get('solids', []):
            solid(sd, world)

    def vis(v, depth):
        s['visgroups'] += 1
        s['nested_visgroups'] += depth > 0
        for c in v.get('children', []):
            vis(c, depth + 1)

    ent(desc.get('world') or {}, True)
    for ed in desc.get('entities', []):
        ent(ed, False)
    for v in desc.get('visgroups', []):
        vis(v, 0)
    s['groups'] = len(desc.get('groups', []))
    s['cameras'] = len(desc.get('cameras', []))
    s['cordons'] = len(desc.get('cordons', []))
    st_ = desc.get('settings') or {}
    if 'world' in desc and 'entities' in desc and 'visgroups' in desc and 'cordons' in desc:
        try:
            s['labels'] |= case_variant_classes(desc)
        except (KeyError, TypeError):       # short hand-written descriptors
            pass
    s['viewports'] = int(st_.get('viewports') is not None)
    s['inst_vis'] = int(st_.get('inst_vis') is not None)
    return s
