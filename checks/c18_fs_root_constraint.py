"""C18 - a constrained RawFileSystem never reaches outside its root (DESIGN.md section 2, C18).

Every case builds a scratch tree

    <scratch>/top.txt
    <scratch>/<base>/base.txt, <root>2.txt
    <scratch>/<base>/<root>/...                      the constrained root (files, sub-folders, a folder named
                                                     like the root and one named like a sibling)
    <scratch>/<base>/<root>2|<root>_old|<root>.bak|other/secret.txt (+ sub/b.txt)     siblings

in which every file holds a unique token, and runs generated query paths through every read operation
of `RawFileSystem(root)` (directly and through a `FileSystemChain` with a subfolder prefix).

Ground truth ("which file does the query refer to") is computed by the harness with its own lexical
resolver (cross-checked with os.path.realpath) and os.path.commonpath against the real root.  srctools
documents that both slash characters are separators ("both slashes are converted to '/'"), whereas on
POSIX a backslash handed to the OS is an ordinary file-name character; RawFileSystem currently hands the
backslash through.  The statement does not say which reading is the right one, so for a query that
contains a backslash *both* readings are computed and a verdict about RootEscapeError is given only
when they agree; the clause "no data from outside the root" is checked unconditionally.
"""
from __future__ import annotations

import itertools
import os
import shutil
import tempfile

from hypothesis import strategies as st

from vlib.core import HarnessError, Sub

PROPERTY = 'C18'
LEVEL = 'exploration'
RULE = (
    'Hypothesis generates (tree options, root spelling, list of query descriptors); a query is a list of symbolic '
    'segments (.., ., empty, names inside the root, sibling names that extend the root name, the root name, for root '
    'names with shell-pattern characters a sibling whose name the root name matches as a pattern, '
    'absolute prefixes of scratch/base/root/siblings) joined by /, \\ or a mix, with optional leading/trailing '
    'separators, run through `in`, [], open_bin, open_str and walk_folder of a constrained RawFileSystem, directly '
    'and through FileSystemChain with a subfolder prefix; each case also carries a history: 0-2 twin filesystems on the '
    'same root (unconstrained, second constrained instance, root spelled differently) receive the same query strings '
    'before / interleaved with / after the judged queries, their answers are not judged; the filesystem objects are '
    'constructed after the tree exists, before the root folder exists, or before anything exists; non-trivial = the case has a query whose target lies '
    'outside the root under every reading; distinct = sha1 of the descriptor JSON'
)
ASSUMPTIONS = [
    'no symbolic links anywhere in the scratch tree (not in the statement); POSIX host with a case-sensitive file '
    'system (directories whose names differ from the root only in letter case are different directories)',
    'file and folder names are ASCII without NUL; root names may contain the characters [ ] ? * and spaces (legal '
    'in directory names on POSIX; they are names, not patterns); some in-root names contain backslashes on disk (walk_folder reports '
    'them with / instead); a handle so named may open that very in-root file or be rejected, never leak',
    'a query containing a backslash has two admissible readings (srctools: separator; POSIX: name character); '
    'RootEscapeError is demanded/forbidden only when both readings agree, leaking is forbidden under both',
    'a path with exactly two leading slashes is implementation-defined in POSIX: either verdict is accepted when '
    'the single-slash reading lies inside the root',
    'inside the root => no RootEscapeError is grounded in the RootEscapeError docstring ("a path tries to refer to '
    'a file outside the root"); other OSError subclasses are always acceptable',
    'RawFileSystem() accepts a root that does not exist yet (no exception on the unchanged tree); the root the caller '
    'named stays the ground truth when the folder is created afterwards',
    'a relative root denotes the directory it names when the filesystem is created; the working directory may change '
    'afterwards (changed and restored inside the case, shards are separate processes)',
    'twin filesystems (constrain_path=False etc.) may legitimately read outside the root; only the constrained '
    'filesystem under test is judged',
    'packlist.unify_path is exercised and classified in the histogram only',
]
TECHNIQUE = ('property-based testing (Hypothesis) on a real scratch directory tree with unique content tokens; '
             'oracle = independent lexical path resolver + os.path.realpath/commonpath containment')
LEVEL_TEXT = ('Generated-input search: thousands (quick) to hundreds of thousands (thorough) of query paths built from '
              '.., ., separators of both kinds, absolute prefixes and sibling names extending the root name are run through '
              'all read operations of a constrained RawFileSystem and a FileSystemChain over it; held on everything explored, '
              'not a proof.')
LEVEL_NOTE = ('Trusts the harness resolver (cross-checked against os.path.realpath), tempfile and the host file system; '
              'no symlinks; backslash queries judged only where the srctools and the POSIX reading agree.')
CAPS = (300, 2400)

# mixed case, so that lower/upper/swapcase give three different sibling names on this case-sensitive host
ROOT_NAMES = ['Root', 'rX', 'Hl2.x', 'Game Dir', 'Portal2_DLC1',
              # legal directory names that are also shell-pattern syntax ('[', ']', '?', '*'); the tree then holds a
              # sibling directory whose name the root's name matches when it is read as a pattern (glob_twin)
              'Game[2]', 'Mod [Beta]', 'Maps?', 'Add*on']
SIB_SUFFIXES = ['2', '_old', '.bak']
ROOT_FORMS = ['abs', 'abs_slash', 'abs_dot', 'abs_dotdot', 'abs_dblslash_mid', 'rel', 'rel_slash', 'rel_dot',
              'rel_up', 'pathlib']

# Files inside the root (symbolic: '@r' = the root's own name, '@r2' = name of the first sibling).
IN_ROOT_FILES = [
    'a.txt', 'secret.txt', 'sub/b.txt', 'sub/secret.txt', 'sub/deep/c.txt',
    '@r/inner.txt', '@r2/x.txt', '@r2/secret.txt', 'sub/@r/d.txt',
    # names that contain a backslash ON DISK (legal on POSIX).  walk_folder() converts '\\' to '/' in the names it
    # reports, so the first three get handle names that point out of the root ('../notes.txt', '.../<root>2/notes.txt').
    # legal names with consecutive dots (only the components '.' and '..' are special)
    'wait...wav', 'sub/notes..old.txt', 'v1..v2/x.txt', '..a', 'a..', '.../deep.txt',
    '..\\notes.txt', 'sub/..\\..\\@r2\\notes.txt', 'dir\\..\\..\\@r2/notes.txt', 'a\\b.txt', 'sub\\b.txt',
]
SIBLING_FILES = ['secret.txt', 'sub/b.txt', 'a.txt', 'notes.txt']

# Query segment symbols.
SEG_DOTS = ['..', '..', '..', '.', '']
SEG_INSIDE = ['a.txt', 'secret.txt', 'sub', 'b.txt', 'deep', 'c.txt', '@r', 'inner.txt', 'x.txt', 'd.txt', 'notes.txt', 'dir',
              'wait...wav', 'notes..old.txt', 'v1..v2', '..a', 'a..', '...', 'deep.txt']
SEG_SIB = ['@r2', '@r_old', '@r.bak', 'other', '@r2.txt', '@rl', '@ru', '@rs', '@rl2', '@rg']
SEG_ABOVE = ['@base', 'base.txt', 'top.txt', 'missing', '@basev']
SEG_ABS = ['@ABS_ROOT', '@ABS_BASE', '@ABS_SIB2', '@ABS_SIBOLD', '@ABS_SCRATCH', '@ABS_SLASH']

# Twin filesystems on the same root (state shared between filesystem objects must not weaken the constrained one).
TWIN_KINDS = ['unconstrained', 'unconstrained', 'constrained2', 'respelled', 'respelled_unconstrained']

CHAIN_PREFIXES = ['', 'sub', 'sub/', 'sub/deep', '@r', '@r2', '../@r2', '..', 'sub\\deep']


# ------------------------------------------------------------------------------------------------
# generation

def _noisy(segs_and_noise):
    """Interleave a real path with harmless detours ('.', '', 'x/..')."""
    segs, noise = segs_and_noise
    out = []
    for i, seg in enumerate(segs):
        out.append(seg)
        n = noise[i % len(noise)] if noise else 0
        if i < len(segs) - 1:
            out.extend([[], [], ['.'], [''], ['missing', '..'], ['deep', '..'], ['..', seg]][n])
    return out


def query_strategy():
    free = st.lists(
        st.one_of(
            st.sampled_from(SEG_DOTS), st.sampled_from(SEG_INSIDE), st.sampled_from(SEG_SIB),
            st.sampled_from(SEG_ABOVE), st.sampled_from(SEG_INSIDE), st.sampled_from(SEG_SIB),
        ),
        min_size=0, max_size=6,
    )
    absolute = st.tuples(
        st.sampled_from(['@ABS_ROOT', '@ABS_ROOT', '@ABS_BASE', '@ABS_SIB2', '@ABS_SIB2', '@ABS_SIBOLD',
                         '@ABS_SCRATCH', '@ABS_SLASH', '@ABS_SIBL', '@ABS_SIBU', '@ABS_BASEV', '@ABS_BASEV_ROOT', '@ABS_SIBG']),
        free,
    ).map(lambda t: [t[0]] + t[1])
    # climb out of a few existing folders, then name something next to the root
    climb = st.tuples(
        st.lists(st.sampled_from(['sub', 'deep', '@r', '.', 'missing']), max_size=2),
        st.sampled_from([1, 1, 2, 2, 3, 4]),
        st.lists(st.sampled_from(SEG_SIB + SEG_ABOVE + SEG_INSIDE), max_size=3),
    ).map(lambda t: t[0] + ['..'] * t[1] + t[2])
    noise = st.lists(st.integers(0, 6), max_size=3)
    # a file that (probably) exists inside the root, reached over a detour that stays inside or comes back
    inside_file = st.tuples(
        st.sampled_from([[], [], ['.'], ['sub', '..'], ['..', '@r'], ['@ABS_ROOT'], ['@r', '..'],
                         ['..', '..', '@base', '@r'], ['@ABS_BASE', '@r'], ['@ABS_SIB2', '..', '@r'], [''],
                         ['..', '@ru', '..', '@r'], ['@ABS_SIBL', '..', '@r']]),
        st.tuples(st.sampled_from(IN_ROOT_FILES).map(lambda p: p.split('/')), noise).map(_noisy),
    ).map(lambda t: t[0] + t[1])
    # a file that exists next to the root
    sibling_file = st.tuples(
        st.sampled_from([['..'], ['..'], ['sub', '..', '..'], ['sub', 'deep', '..', '..', '..'], ['.', '..'],
                         ['@ABS_BASE'], ['@ABS_ROOT', '..'], ['missing', '..', '..'], ['@r', '..', '..'],
                         ['..', '..', '@basev'], ['@ABS_BASEV']]),
        st.sampled_from(['@r2', '@r2', '@r_old', '@r.bak', 'other', '@rl', '@ru', '@rs', '@rl2', '@rl', '@ru']),
        st.tuples(st.sampled_from(SIBLING_FILES + ['']).map(lambda p: p.split('/')), noise).map(_noisy),
    ).map(lambda t: t[0] + [t[1]] + t[2])
    segs = st.one_of(free, absolute, climb, inside_file, inside_file, sibling_file)
    return st.fixed_dictionaries({
        'segs': segs,
        'sep': st.sampled_from(['f', 'f', 'f', 'b', 'm']),
        'mask': st.integers(0, (1 << 12) - 1),
        'lead': st.sampled_from(['', '', '', '', '', '', '', '/', '\\', '//', './', '.\\', '\\\\', '/\\']),
        'trail': st.sampled_from(['', '', '', '', '', '', '/', '\\', '/.', '/..', '\\..', '\\.']),
    })


def case_strategy(chain: bool):
    def build(tier: str):
        nq = 12 if tier == 'quick' else 20
        d = {
            'root': st.sampled_from(ROOT_NAMES),
            'base': st.sampled_from(['Base', 'bB', 'Game dir']),
            'root_form': st.sampled_from(ROOT_FORMS),
            'files': st.lists(st.sampled_from(IN_ROOT_FILES), min_size=1, max_size=len(IN_ROOT_FILES), unique=True),
            'queries': st.lists(query_strategy(), min_size=1, max_size=nq),
            # history: twin filesystems on the same root that see the same query strings; their answers are not judged
            'twins': st.one_of(st.just([]), st.lists(st.sampled_from(TWIN_KINDS), min_size=1, max_size=2),
                               st.lists(st.sampled_from(TWIN_KINDS), min_size=1, max_size=2)),
            'twin_mode': st.sampled_from(['first', 'interleaved', 'interleaved', 'after']),
            'construct': st.sampled_from(['after', 'after', 'before_root', 'before_tree']),
            # 'move': the working directory is <base> while the filesystems are made and another project afterwards
            'cwd': st.sampled_from(['keep', 'keep', 'move']),
            'maker': st.sampled_from(['ctor', 'ctor', 'get_filesystem']),
        }
        if chain:
            d['prefix'] = st.sampled_from(CHAIN_PREFIXES)
            d['ctor'] = st.sampled_from(['tuple', 'add_sys', 'priority'])
        return st.fixed_dictionaries(d)
    return build


# ------------------------------------------------------------------------------------------------
# the scratch tree and the ground truth

def glob_twin(name: str):
    """For a name containing shell-pattern characters: another name that the pattern `name` matches (a sibling
    directory reached if the root's name is ever interpreted as a pattern); None for ordinary names."""
    import fnmatch
    out = []
    i = 0
    while i < len(name):
        c = name[i]
        j = name.find(']', i + 2) if c == '[' else -1
        if c == '?':
            out.append('x')
        elif c == '*':
            out.append('_x')
        elif j > 0:
            out.append(name[i + 1])
            i = j
        else:
            out.append(c)
        i += 1
    twin = ''.join(out)
    if twin == name:
        return None
    if not fnmatch.fnmatchcase(twin, name):
        raise HarnessError(f'glob_twin: {twin!r} does not match pattern {name!r}')
    return twin


def lexical(path: str) -> str:
    """Own lexical resolver for an absolute '/'-separated path (no symlinks in the tree)."""
    stack: list[str] = []
    for seg in path.split('/'):
        if seg == '' or seg == '.':
            continue
        if seg == '..':
            if stack:
                stack.pop()
            continue
        stack.append(seg)
    return '/' + '/'.join(stack)


def scratch_parent():
    """Parent for the per-case mkdtemp(): a RAM-backed tmpfs when the host has one (the ext4 /tmp of this sandbox
    needs ~80 ms to create and remove a 25-file tree, tmpfs 1.5 ms); otherwise the tempfile default."""
    for cand in ('/dev/shm',):
        if os.path.isdir(cand) and os.access(cand, os.W_OK | os.X_OK):
            return cand
    return None


class Tree:
    """The scratch tree of one case."""
    def __init__(self, desc) -> None:
        self.scratch = os.path.realpath(tempfile.mkdtemp(prefix='verif_c18_', dir=scratch_parent()))
        self.root_name = desc['root']
        self.base = self.scratch + '/' + desc['base']
        self.root = self.base + '/' + self.root_name
        self.tokens: dict[str, bytes] = {}      # absolute real path -> content
        # in-root files whose on-disk name contains a backslash: name as walk_folder() reports it -> real path
        self.alt: dict[str, str] = {}
        self.alt_escaping = False
        self.sym = {
            '@r': self.root_name, '@r2': self.root_name + '2', '@r_old': self.root_name + '_old',
            '@r.bak': self.root_name + '.bak', '@r2.txt': self.root_name + '2.txt', '@base': desc['base'],
            '@ABS_ROOT': self.root, '@ABS_BASE': self.base, '@ABS_SIB2': self.root + '2',
            '@ABS_SIBOLD': self.root + '_old', '@ABS_SCRATCH': self.scratch, '@ABS_SLASH': '/',
        }
        # Names that differ from the root (or the base) only in letter case: other directories on this host.
        rn, bn = self.root_name, desc['base']
        self.base_variant = bn.swapcase()
        self.sym.update({
            '@rl': rn.lower(), '@ru': rn.upper(), '@rs': rn.swapcase(), '@rl2': rn.lower() + '2', '@basev': self.base_variant,
            '@ABS_SIBL': self.base + '/' + rn.lower(), '@ABS_SIBU': self.base + '/' + rn.upper(),
            '@ABS_BASEV': self.scratch + '/' + self.base_variant,
            '@ABS_BASEV_ROOT': self.scratch + '/' + self.base_variant + '/' + rn,
        })
        self.case_siblings = [n for n in dict.fromkeys([rn.lower(), rn.upper(), rn.swapcase(), rn.lower() + '2'])
                              if n != rn]
        # the root's name read as a shell pattern matches this other directory
        self.glob_sibling = glob_twin(rn)
        if self.glob_sibling is not None:
            self.case_siblings.append(self.glob_sibling)
        self.sym['@rg'] = self.glob_sibling or rn + '2'
        self.sym['@ABS_SIBG'] = self.base + '/' + self.sym['@rg']

    def expand(self, symbolic: str) -> str:
        return '/'.join('\\'.join(self.sym.get(x, x) for x in part.split('\\')) for part in symbolic.split('/'))

    def put(self, path: str) -> None:
        os.makedirs(os.path.dirname(path), exist_ok=True)
        data = f'TOKEN {len(self.tokens)} {path[len(self.scratch):]}\n'.encode('ascii')
        with open(path, 'wb') as f:
            f.write(data)
        self.tokens[path] = data

    def populate_root(self, desc) -> None:
        os.makedirs(self.root, exist_ok=True)
        for rel in desc['files']:
            disk = self.expand(rel)
            self.put(self.root + '/' + disk)
            if '\\' in disk:
                shown = disk.replace('\\', '/')
                self.alt[shown] = self.root + '/' + disk
                if not self.inside(lexical(self.root + '/' + shown)):
                    self.alt_escaping = True

    def populate_outside(self) -> None:
        self.put(self.scratch + '/top.txt')
        self.put(self.base + '/base.txt')
        self.put(self.base + '/notes.txt')
        self.put(self.base + '/' + self.root_name + '2.txt')
        # another project folder holding a directory with the root's relative name (reached if a relative root is
        # re-anchored to a later working directory)
        for rel in ('a.txt', 'secret.txt', 'sub/b.txt', 'wait...wav'):
            self.put(self.scratch + '/projB/' + self.root_name + '/' + rel)
        for sib in dict.fromkeys([self.root_name + s for s in SIB_SUFFIXES] + ['other'] + self.case_siblings):
            for rel in SIBLING_FILES:
                self.put(self.base + '/' + sib + '/' + rel)
        if self.base_variant != os.path.basename(self.base):
            # an ancestor that differs only in case, holding a folder named exactly like the root
            for rel in SIBLING_FILES[:2]:
                self.put(self.scratch + '/' + self.base_variant + '/' + self.root_name + '/' + rel)

    def inside(self, real: str) -> bool:
        return real == self.root or os.path.commonpath([real, self.root]) == self.root

    def remove(self) -> None:
        shutil.rmtree(self.scratch, ignore_errors=True)


def posix_join(prefix: str, name: str) -> str:
    """What os.path.join(prefix, name) means on POSIX, written out."""
    if name.startswith('/'):
        return name
    if prefix == '' or prefix.endswith('/'):
        return prefix + name
    return prefix + '/' + name


class Reading:
    """One admissible reading of a query: the absolute file it refers to, and whether that is inside the root."""
    def __init__(self, tree: Tree, rel_or_abs: str, how: str) -> None:
        self.how = how
        self.double_slash = rel_or_abs.startswith('//') and not rel_or_abs.startswith('///')
        full = rel_or_abs if rel_or_abs.startswith('/') else tree.root + '/' + rel_or_abs
        self.real = lexical(full)
        rp = os.path.realpath(full)
        # (outside the scratch tree the host may have symlinks; such a target is outside the root in any case)
        if rp != self.real and (self.real + '/').startswith(tree.scratch + '/'):
            raise HarnessError(f'harness resolver disagrees with realpath: {full!r} -> {self.real!r} vs {rp!r}')
        self.inside = tree.inside(self.real)

    def __repr__(self) -> str:
        return f'<{self.how}: {self.real} {"inside" if self.inside else "OUTSIDE"}{" (//)" if self.double_slash else ""}>'


def readings_direct(tree: Tree, q: str) -> list[Reading]:
    res = [Reading(tree, q.replace('\\', '/'), 'both-slashes-separate')]
    if '\\' in q:
        res.append(Reading(tree, q, 'backslash-is-a-name-character'))
    return res


def readings_chain(tree: Tree, prefix: str, q: str) -> list[Reading]:
    # The chain documents members as "filtered to a subfolder"; the name is joined to the prefix.  A leading
    # backslash may or may not make the name absolute, depending on when it is normalised.
    a = posix_join(prefix, q).replace('\\', '/')
    b = posix_join(prefix.replace('\\', '/'), q.replace('\\', '/'))
    res = [Reading(tree, a, 'join-then-normalise')]
    if b != a:
        res.append(Reading(tree, b, 'normalise-then-join'))
    return res


def build_query(tree: Tree, qd) -> str:
    """Segments joined by the requested separator kind; lead and trail are literal."""
    core = '/'.join(tree.sym.get(s, s) for s in qd['segs'])
    if qd['sep'] == 'b':
        core = core.replace('/', '\\')
    elif qd['sep'] == 'm':
        out = []
        i = 0
        for ch in core:
            if ch == '/':
                if (qd['mask'] >> (i % 12)) & 1:
                    ch = '\\'
                i += 1
            out.append(ch)
        core = ''.join(out)
    return qd['lead'] + core + qd['trail']


def case_variant_escape(tree: Tree, real: str) -> bool:
    """The (outside) target lies in a directory whose path differs from the root's only in letter case."""
    root = tree.root
    head = real[:len(root)]
    return (len(real) >= len(root) and head != root and head.casefold() == root.casefold()
            and real[len(root):][:1] in ('', '/'))


def route_of(tree: Tree, q: str, rd: Reading) -> str:
    """Histogram class of an escaping query."""
    real = rd.real
    base = tree.base
    absolute = q[:1] in '/\\'
    kind = 'abs' if absolute else 'dotdot'
    if real.startswith(base + '/'):
        first = real[len(base) + 1:].split('/')[0]
        if first.startswith(tree.root_name) and first != tree.root_name:
            where = 'sibling_ext_file' if first.endswith('.txt') else 'sibling_ext'
        elif first == 'other':
            where = 'sibling_other'
        else:
            where = 'base_entry'
    elif real == base:
        where = 'base'
    elif real == tree.scratch or real.startswith(tree.scratch + '/'):
        where = 'ancestor'
    else:
        where = 'above_scratch'
    return f'route:{kind}:{where}'


# ------------------------------------------------------------------------------------------------
# the oracle

class Judge:
    def __init__(self, ctx, tree: Tree, q: str, readings: list[Reading], via: str) -> None:
        self.ctx, self.tree, self.q, self.readings, self.via = ctx, tree, q, readings, via
        flags: list[bool] = []
        for r in readings:
            flags.append(r.inside)
            if r.double_slash and r.inside:
                flags.append(False)     # '//x' may be a different name space: rejecting is acceptable as well
        self.all_outside = not any(flags)
        self.all_inside = all(flags)
        self.inside_files = {r.real for r in readings if r.inside}

    def facts(self, op: str) -> dict:
        return {'op': op, 'via': self.via, 'query': self.q, 'backslash': '\\' in self.q}

    def describe(self) -> str:
        return f'via={self.via} query={self.q!r} root={self.tree.root!r} readings={self.readings!r}'

    def rejected(self, op: str) -> None:
        """The operation raised RootEscapeError."""
        self.ctx.check(not self.all_inside, 'inside_rejected',
                       f'{op}: RootEscapeError for a path that lies inside the root; {self.describe()}',
                       **self.facts(op))

    def not_rejected(self, op: str, outcome: str) -> None:
        """The operation returned or raised an ordinary OSError."""
        self.ctx.check(not self.all_outside, 'outside_not_rejected',
                       f'{op}: target is outside the root but no RootEscapeError was raised ({outcome}); {self.describe()}',
                       **self.facts(op))

    def opened(self, op: str, real_name: str, data: bytes) -> None:
        """Some file object was obtained: where does it live and what does it hold?"""
        tree = self.tree
        for path, tok in tree.tokens.items():
            if tok == data and not tree.inside(path):
                self.ctx.fail('outside_data', f'{op}: returned the content of {path!r}, which is outside the root; '
                              f'{self.describe()}', **self.facts(op))
                return
        real = lexical(real_name) if real_name.startswith('/') else None
        if real is not None and not tree.inside(real):
            self.ctx.fail('outside_data', f'{op}: opened {real_name!r} outside the root; {self.describe()}',
                          **self.facts(op))
            return
        want = sorted(tree.tokens.get(p, b'<no such file>') for p in self.inside_files)
        self.ctx.check(data in want, 'inside_wrong_bytes',
                       f'{op}: returned {data!r}, the in-root file it refers to holds {want!r}; {self.describe()}',
                       **self.facts(op))

    def exists_true(self, op: str) -> None:
        ok = any(p in self.tree.tokens for p in self.inside_files)
        if not ok:
            outside_hit = [r.real for r in self.readings if not r.inside and r.real in self.tree.tokens]
            clause = 'outside_data' if outside_hit else 'inside_wrong_bytes'
            self.ctx.fail(clause, f'{op}: reports an existing file, but the only existing candidate is '
                          f'{outside_hit!r} (outside the root) / none; {self.describe()}', **self.facts(op))


def run_ops(ctx, tree: Tree, fs, q: str, readings: list[Reading], via: str, ops, via_chain: bool = False) -> None:
    from srctools.filesys import File, RootEscapeError
    j = Judge(ctx, tree, q, readings, via)
    # A name that denotes an existing file inside the root (one reading, nothing ambiguous) must be served.
    serve = (len(readings) == 1 and readings[0].inside and not readings[0].double_slash
             and readings[0].real in tree.tokens)
    if serve and any('..' in c and c != '..' for c in q.replace('\\', '/').split('/')):
        ctx.label('name:consecutive_dots_inside')

    def unserved(op: str, outcome: str) -> None:
        if serve:
            ctx.fail('inside_not_served', f'{op}: {outcome} for a name that denotes the existing in-root file '
                     f'{readings[0].real!r}; {j.describe()}', **j.facts(op))

    if j.all_outside:
        ctx.label('target:outside')
    elif j.all_inside:
        ctx.label('target:inside')
    else:
        ctx.label('target:readings_differ')

    for op in ('open_bin', 'open_str'):
        if op not in ops:
            continue
        try:
            fobj = fs.open_bin(q) if op == 'open_bin' else fs.open_str(q)
        except RootEscapeError:
            j.rejected(op)
        except OSError as exc:
            j.not_rejected(op, type(exc).__name__)
            unserved(op, type(exc).__name__)
        else:
            with fobj:
                name = str(getattr(fobj, 'name', ''))
                data = fobj.read()
            if isinstance(data, str):
                data = data.encode('ascii')
            j.not_rejected(op, f'returned {data!r}')
            j.opened(op, name, data)
            ctx.label('inside_hit:' + op)

    if 'in' in ops:
        try:
            res = q in fs
        except RootEscapeError:
            j.rejected('in')
        else:
            j.not_rejected('in', f'returned {res!r}')
            if not res:
                unserved('in', 'False')
            if res:
                j.exists_true('in')
                ctx.label('inside_hit:in')

    if 'getitem' in ops:
        try:
            f = fs[q]
        except RootEscapeError:
            j.rejected('getitem')
        except FileNotFoundError:
            j.not_rejected('getitem', 'FileNotFoundError')
            unserved('getitem', 'FileNotFoundError')
        else:
            ctx.check(isinstance(f, File), 'type', f'fs[{q!r}] returned {f!r}')
            j.not_rejected('getitem', f'returned File {f.path!r}')
            j.exists_true('getitem')
            # the File object must open the in-root file, whichever way it is opened
            for hop, fn in (('File.open_bin()', f.open_bin), ('fs.open_bin(File)', lambda: fs.open_bin(f)),
                            ('fs.open_str(File)', lambda: fs.open_str(f)), ('File.open_str()', f.open_str)):
                try:
                    fobj = fn()
                except RootEscapeError:
                    j.rejected('getitem.' + hop)
                except OSError:
                    pass
                else:
                    with fobj:
                        hname = str(getattr(fobj, 'name', ''))
                        hdata = fobj.read()
                    j.opened('getitem.' + hop, hname, hdata.encode('ascii') if isinstance(hdata, str) else hdata)
                    ctx.label('inside_hit:getitem')

    for op in ('walk_folder', 'walk_folder_repeat'):
        if op not in ops:
            continue
        it = getattr(fs, op)(q)
        n = 0
        try:
            # Lazy on purpose: a walk that got out must be stopped at the first foreign file, not after
            # listing the whole disk.
            for f in itertools.islice(it, 400):
                n += 1
                if n == 1:
                    j.not_rejected(op, f'yielded {f.path!r}')
                if not via_chain:
                    real = lexical(tree.root + '/' + f.path)
                    # (a name that only looks foreign because an on-disk backslash was converted is judged when opened)
                    if not ctx.check(tree.inside(real) or f.path in tree.alt, 'walk_file_outside',
                                     f'{op}: yielded File {f.path!r} = {real!r}, outside the root; {j.describe()}',
                                     **j.facts(op)):
                        break
                if n <= 40:
                    routes = [('fs.open_bin(File)', lambda f=f: fs.open_bin(f)), ('fs.open_str(File)', lambda f=f: fs.open_str(f)),
                              ('File.open_bin()', f.open_bin), ('File.open_str()', f.open_str)]
                    judge_handle(ctx, tree, f, routes, f'{j.via} {op}({q!r})', chain=via_chain)
        except RootEscapeError:
            if n == 0:
                j.rejected(op)
            else:
                ctx.fail('inside_rejected', f'{op}: RootEscapeError after {n} files; {j.describe()}', **j.facts(op))
        else:
            if n == 0:
                j.not_rejected(op, 'yielded nothing')
            else:
                ctx.label('inside_hit:' + op)
        finally:
            it.close()


def judge_handle(ctx, tree: Tree, f, routes, via: str, chain: bool = False) -> None:
    """Open a File handle (from a walk, or from a twin filesystem) through the filesystem under test.

    The handle's name is what counts.  If it denotes a path outside the root the open must raise RootEscapeError -
    except that a name produced by walk_folder() from an on-disk name with backslashes may also open that very
    in-root file.  Data from outside the root is never acceptable.  Handles listed by a chain carry names relative
    to the member's subfolder (C19 judges those); for them the file actually opened is judged."""
    from srctools.filesys import RootEscapeError
    name = f.path
    b_real, b_inside, alt = None, None, None
    if not chain:
        rd = Reading(tree, name, 'handle-name')
        b_real, b_inside = rd.real, rd.inside
        alt = tree.alt.get(name)
        if alt is not None:
            ctx.label('disk_name:backslash_dotdot' if not b_inside else 'disk_name:backslash')
    elif tree.alt_escaping:
        ctx.label('disk_name:backslash_dotdot')
    for label, fn in routes:
        facts = {'op': label, 'via': via, 'query': name, 'backslash': False}
        where = f'{label} for handle {name!r} ({via}); root={tree.root!r} denotes={b_real!r} on-disk-name={alt!r}'
        try:
            fobj = fn()
        except RootEscapeError:
            ok = tree.alt_escaping if chain else (not b_inside or rd.double_slash)
            ctx.check(ok, 'inside_rejected', f'RootEscapeError from {where}, which lies inside the root', **facts)
            ctx.label('handle:rejected')
            continue
        except OSError as exc:
            if not chain and not b_inside and alt is None:
                ctx.fail('outside_not_rejected', f'{where}: outside the root but {type(exc).__name__}, not RootEscapeError',
                         **facts)
            continue
        with fobj:
            opened = lexical(str(getattr(fobj, 'name', '')) or '/')
            data = fobj.read()
        if isinstance(data, str):
            data = data.encode('ascii')
        leak = [p for p, t in tree.tokens.items() if t == data and not tree.inside(p)]
        if leak or not tree.inside(opened):
            ctx.fail('outside_data', f'{where}: returned {data!r} from {opened!r}; leaked file {leak!r}', **facts)
            continue
        if chain:
            want = [tree.tokens.get(opened)]
        else:
            if not b_inside and alt is None:
                ctx.fail('outside_not_rejected', f'{where}: outside the root but the open succeeded ({data!r})', **facts)
                continue
            want = [tree.tokens[x] for x in ((b_real if b_inside else None), alt) if x in tree.tokens]
        ctx.check(data in want, 'walk_file_wrong_bytes', f'{where}: returned {data!r}, expected one of {want!r}', **facts)
        ctx.label('handle:opened')


def run_twin(fs, q: str, ops) -> None:
    """Send the query through a twin filesystem.  Nothing is judged; whatever the twin is allowed to do."""
    for op in ops:
        try:
            if op == 'in':
                q in fs
            elif op == 'getitem':
                with fs[q].open_bin() as fobj:
                    fobj.read(64)
            elif op in ('open_bin', 'open_str'):
                with getattr(fs, op)(q) as fobj:
                    fobj.read(64)
            else:
                it = getattr(fs, op)(q)
                try:
                    for _ in itertools.islice(it, 3):     # an unconstrained walk of '/' must stay cheap
                        pass
                finally:
                    it.close()
        except (OSError, ValueError):       # ValueError: RootEscapeError, undecodable text outside our tree
            pass


def classify_unify(ctx, tree: Tree, q: str, readings: list[Reading]) -> None:
    """packlist.unify_path: recorded, not judged (the statement speaks of the directory filesystem)."""
    from srctools.packlist import unify_path
    outside = not readings[0].inside        # srctools reading
    try:
        res = unify_path(q)
    except ValueError:
        ctx.label('unify:rejects_outside' if outside else 'unify:rejects_inside')
    else:
        if not outside:
            ctx.label('unify:accepts_inside')
        elif tree.inside(lexical(tree.root + '/' + res)):
            ctx.label('unify:outside_made_relative')      # e.g. '/abs/path' -> 'abs/path'
        else:
            ctx.label('unify:returns_escaping_path')      # e.g. 'sub/../..' -> '..'


def make_root_arg(tree: Tree, form: str):
    """The spelling of the root handed to RawFileSystem.  Relative forms are relative to the process's current
    directory at construction time (the case may move it to <base> first and elsewhere afterwards)."""
    import pathlib
    root, name = tree.root, tree.root_name
    rel = os.path.relpath(root, os.getcwd())
    rel_base = os.path.relpath(tree.base, os.getcwd())
    return {
        'abs': root,
        'abs_slash': root + '/',
        'abs_dot': root + '/.',
        'abs_dotdot': root + '/sub/..',
        'abs_dblslash_mid': tree.base + '//' + name + '//',
        'rel': rel,
        'rel_slash': rel + '/',
        'rel_dot': './' + rel,
        'rel_up': rel_base + '/../' + os.path.basename(tree.base) + '/' + name,
        'pathlib': pathlib.Path(root),
    }[form]


def execute_generic(desc, ctx, mode: str) -> None:
    from srctools.filesys import FileSystemChain, RawFileSystem, get_filesystem
    old_cwd = os.getcwd()
    tree = Tree(desc)
    try:
        # order of operations: the filesystem objects may be made before the folders they name exist
        construct = desc.get('construct', 'after')
        ctx.label('construct:' + construct)
        if construct != 'after':
            ctx.label('construct:before_root_exists')
        if construct == 'after':
            tree.populate_outside()
            tree.populate_root(desc)
        elif construct == 'before_root':
            tree.populate_outside()
        move_cwd = desc.get('cwd', 'keep') == 'move'
        if move_cwd:
            # (restored in the finally below; every shard is its own process)
            os.makedirs(tree.base, exist_ok=True)
            os.chdir(tree.base)
        root_arg = make_root_arg(tree, desc['root_form'])
        # get_filesystem() takes a str naming an existing directory (e.g. '<root>/sub/..' needs 'sub' to exist)
        if desc.get('maker') == 'get_filesystem' and isinstance(root_arg, str) and os.path.isdir(root_arg):
            fs = get_filesystem(root_arg)
            ctx.check(type(fs) is RawFileSystem, 'type', f'get_filesystem() of a directory gave {fs!r}')
            ctx.label('maker:get_filesystem')
        else:
            fs = RawFileSystem(make_root_arg(tree, desc['root_form']))
        ctx.check(fs.constrain_path is True, 'default_constrained', 'constrain_path is not on by default')
        ctx.check(lexical(fs.path) == tree.root, 'root_path', f'fs.path={fs.path!r}, root given as {desc["root_form"]} '
                  f'of {tree.root!r}')
        ctx.label('root_form:' + desc['root_form'])
        if tree.glob_sibling is not None:
            ctx.label('root_name:pattern_chars_with_matching_sibling')
        twin_kinds = list(desc.get('twins', []))
        twin_mode = desc.get('twin_mode', 'first')
        twins = []
        respelled = tree.root if desc['root_form'] != 'abs' else tree.base + '/./' + tree.root_name + '/'
        for kind in twin_kinds:
            twins.append({
                'unconstrained': lambda: RawFileSystem(make_root_arg(tree, desc['root_form']), constrain_path=False),
                'constrained2': lambda: RawFileSystem(make_root_arg(tree, desc['root_form'])),
                'respelled': lambda: RawFileSystem(respelled),
                'respelled_unconstrained': lambda: RawFileSystem(respelled, False),
            }[kind]())
            ctx.label('twin:' + kind)
        if not twins:
            ctx.label('twin:none')
        else:
            ctx.label('twin_mode:' + twin_mode)
            if twin_kinds[0] == 'unconstrained' and twin_mode in ('first', 'interleaved'):
                ctx.label('twin:unconstrained_first')

        chain = None
        prefix = ''
        if mode == 'chain':
            prefix = tree.expand(desc['prefix'].replace('\\', '/'))
            if '\\' in desc['prefix']:
                prefix = prefix.replace('/', '\\')
            if desc['ctor'] == 'tuple':
                chain = FileSystemChain((fs, prefix))
            else:
                chain = FileSystemChain()
                chain.add_sys(fs, prefix, priority=desc['ctor'] == 'priority')
            ctx.label('prefix:' + desc['prefix'])
            # the twins are asked through the same kind of chain, so that the member sees identical strings
            twins = [FileSystemChain((t, prefix)) for t in twins]
        loose_twins = [] if mode == 'chain' else [t for t, k in zip(twins, twin_kinds) if k.endswith('unconstrained')]

        ops = {
            'lookup': ('in', 'getitem', 'open_bin', 'open_str'),
            'walk': ('walk_folder',),
            'chain': ('in', 'getitem', 'open_bin', 'open_str', 'walk_folder', 'walk_folder_repeat'),
        }[mode]
        if construct == 'before_tree':
            tree.populate_outside()
        if construct != 'after':
            tree.populate_root(desc)
        built = [build_query(tree, qd) for qd in desc['queries']]
        if move_cwd:
            os.chdir(tree.scratch + '/projB')
            ctx.label('cwd:moved')
            if desc['root_form'] in ('rel', 'rel_slash', 'rel_dot'):
                ctx.label('cwd:moved_with_relative_root')
        if twin_mode == 'first':
            for t in twins:
                for q in built:
                    run_twin(t, q, ops)

        any_outside = False
        for q in built:
            if twin_mode == 'interleaved':
                for t in twins:
                    run_twin(t, q, ops)
            if mode == 'chain':
                readings = readings_chain(tree, prefix, q)
            else:
                readings = readings_direct(tree, q)
            if all(not r.inside for r in readings):
                any_outside = True
                ctx.label(route_of(tree, q, readings[0]))
                if case_variant_escape(tree, readings[0].real):
                    ctx.label('escape:case_variant_sibling')
                    if readings[0].real[:len(tree.base)] != tree.base:
                        ctx.label('escape:case_variant_ancestor')
                if '\\' in q:
                    ctx.label('route:with_backslash')
            ctx.label('sep:' + ('none' if '/' not in q and '\\' not in q else
                                'mixed' if '/' in q and '\\' in q else 'back' if '\\' in q else 'fwd'))
            classify_unify(ctx, tree, q, readings_direct(tree, q))
            if mode == 'chain':
                run_ops(ctx, tree, chain, q, readings, f'chain[{prefix!r}]', ops, via_chain=True)
            else:
                run_ops(ctx, tree, fs, q, readings, 'raw', ops)
            if twin_mode == 'after':
                for t in twins:
                    run_twin(t, q, ops)
            # a File handle made by an unconstrained twin, opened through the constrained filesystem
            for t in loose_twins:
                handles = []
                try:
                    if mode == 'lookup':
                        handles.append(t[q])
                    else:
                        wit = t.walk_folder(q)
                        try:
                            handles.extend(itertools.islice(wit, 3))
                        finally:
                            wit.close()
                except (OSError, ValueError):
                    pass
                for tf in handles:
                    if not (lexical(tf.path if tf.path.startswith('/') else tree.root + '/' + tf.path) + '/').startswith(
                            tree.scratch + '/'):
                        continue        # never touch host files outside the scratch tree
                    ctx.label('twin_handle')
                    judge_handle(ctx, tree, tf, [('fs.open_bin(twin File)', lambda tf=tf: fs.open_bin(tf)),
                                                 ('fs.open_str(twin File)', lambda tf=tf: fs.open_str(tf))],
                                 f'handle from unconstrained twin for {q!r}')
        if mode == 'lookup':
            # every sub-check opens the handles of a walk over the whole root
            run_ops(ctx, tree, fs, '', readings_direct(tree, ''), 'raw', ('walk_folder',))
        ctx.nontrivial(any_outside)
    finally:
        os.chdir(old_cwd)
        tree.remove()


def execute_lookup(desc, ctx):
    execute_generic(desc, ctx, 'lookup')


def execute_walk(desc, ctx):
    execute_generic(desc, ctx, 'walk')


def execute_chain(desc, ctx):
    execute_generic(desc, ctx, 'chain')


_ROUTES = ('root_name:pattern_chars_with_matching_sibling', 'cwd:moved_with_relative_root', 'maker:get_filesystem', 'name:consecutive_dots_inside', 'disk_name:backslash_dotdot', 'handle:rejected', 'handle:opened', 'construct:before_root_exists', 'construct:before_root', 'construct:before_tree', 'construct:after',
           'escape:case_variant_sibling', 'escape:case_variant_ancestor', 'twin:unconstrained_first', 'twin:none', 'twin:constrained2', 'twin:respelled', 'route:dotdot:sibling_ext', 'route:abs:sibling_ext', 'route:dotdot:ancestor', 'route:dotdot:base_entry',
           'route:dotdot:sibling_other', 'route:with_backslash', 'target:inside', 'target:outside')

SUBCHECKS = [
    Sub('lookup', execute_lookup, strategy=case_strategy(False), quick=1200, thorough=100000, floor=100,
        must_hit=_ROUTES + ('twin_handle', 'inside_hit:in', 'inside_hit:getitem', 'inside_hit:open_bin', 'inside_hit:open_str',
                            'target:readings_differ', 'root_form:rel_slash', 'root_form:abs_slash')),
    Sub('walk', execute_walk, strategy=case_strategy(False), quick=1200, thorough=100000, floor=100,
        must_hit=_ROUTES + ('twin_handle', 'inside_hit:walk_folder',)),
    Sub('chain', execute_chain, strategy=case_strategy(True), quick=1000, thorough=80000, floor=100,
        must_hit=_ROUTES + ('inside_hit:walk_folder', 'inside_hit:walk_folder_repeat', 'inside_hit:open_bin',
                            'prefix:sub', 'prefix:../@r2')),
]

MATCHERS = {}
