"""Harness-side stand-in for the `importlib_resources` backport (absent from /venv and the wheelhouse).

srctools.fgd only needs ``files``; the stdlib module provides it since Python 3.9.
"""
from importlib.resources import *  # noqa: F401,F403
from importlib.resources import files, as_file  # noqa: F401
