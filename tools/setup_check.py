#!/venv/bin/python
"""setup_cmd: make sure Hypothesis is importable in /venv (offline wheelhouse fallback) and that the
repository sources import from /repo/src with the shim."""
import os, subprocess, sys
try:
    import hypothesis  # noqa: F401
except ImportError:
    subprocess.check_call([sys.executable, '-m', 'pip', 'install', '--no-index', '--find-links',
                           '/opt/veriftools/wheels', 'hypothesis'])
env = dict(os.environ, PYTHONPATH='/repo/src:' + os.path.join(os.path.dirname(os.path.dirname(os.path.abspath(__file__))), 'shims'),
           PYTHONDONTWRITEBYTECODE='1')
out = subprocess.check_output([sys.executable, '-c', 'import srctools, srctools.fgd, hypothesis; print(srctools.__file__)'], env=env, text=True)
assert out.startswith('/repo/src/'), out
print('setup ok:', out.strip())
